#!/bin/sh
# usage: try_seed_wt.sh <patch.diff> <Cxx> [tier]
# Like try_seed.sh, but leaves /repo alone: the patch is applied in a scratch worktree and the check imports fpy2 from there
# (PYTHONPATH + VERIF_REPO).  For use while other runs are reading /repo.  The registered commands always use /repo itself.
P=$1; PROP=$2; TIER=${3:-quick}
WT=/tmp/tsw-$$
git -C /repo worktree add -q --detach $WT HEAD || exit 2
( cd $WT && git apply $P ) || { echo APPLY_FAILED; git -C /repo worktree remove --force $WT; exit 2; }
cd /verif
W=$(PYTHONPATH=$WT /venv/bin/python -c "import fpy2; print(fpy2.__file__)")
case "$W" in $WT/*) ;; *) echo "fpy2 resolves to $W, not the worktree"; git -C /repo worktree remove --force $WT; exit 2;; esac
PYTHONPATH=$WT VERIF_REPO=$WT ./check $PROP --tier $TIER > /tmp/try-$PROP-$$.out 2>&1; RC=$?
git -C /repo worktree remove --force $WT
echo "check_rc=$RC"; grep -c VIOLATION /tmp/try-$PROP-$$.out; grep -m3 "VIOLATION\|key=" /tmp/try-$PROP-$$.out | cut -c1-300; tail -1 /tmp/try-$PROP-$$.out
git -C /verif checkout -- evidence 2>/dev/null
exit 0
