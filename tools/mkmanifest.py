#!/usr/bin/env python3
"""Regenerates /verif/MANIFEST.json from the table below (single place to maintain claims)."""
import json
import os

HERE = os.path.dirname(os.path.dirname(os.path.abspath(__file__)))
BASE = json.load(open('/root/.vp/BASELINE.json'))['cmd'].replace('--junitxml=<file>', '').strip()

TECH = 'explicit TLA+ reference model checked with TLC; conformance by trace validation of recorded real-code behaviour (mode V)'

CLAIMS = {
 'C01': dict(engine='Rounding', text=(
     'Design level (spec alone): TLC checks on MCRounding that the step-by-step transcription of RealFloat._round_at '
     '(Params/FastPath/Split/Decide/Increment/Carry) equals the arithmetic definition RoundU and the set-based declarative '
     'definition (nearest members of an enumerated value set, the mode\'s defining sentence) for every small format, mode and '
     'operand encoding; a deliberately wrong tie rule is rejected. Conformance: every (context, operand) of an enumeration of all '
     '11 families (formats <= 4-5 bits, all 8 modes, every overflow mode, special-value options), every quarter and third of '
     'every gap, specials, each operand type, round and round_at, is run through the real code and every record is judged by TLC '
     'against Rounding!Expect (value, inexact, overflow, membership, exception class).'),
     note='Bounded: operands with numerator/denominator < 2^24 (TLC 32-bit integers); wide formats only through the parametric '
          'argument. RTO/RTE overflow direction and the exponential format\'s region below its smallest value are left open, '
          'as the property leaves them.'),
 'C02': dict(engine='Arith', text=(
     'Design level: MCReRound proves on a fine grid that rounding to odd with two extra digits and re-rounding equals rounding '
     'once, for every small format and mode (one extra digit is rejected). Conformance: fpy2.ops add/sub/mul/div/fma/sqrt/cbrt/'
     'hypot/mod/fmod/remainder/pow(int)/ceil/floor/trunc/roundint/nearbyint/neg/fabs/copysign/fdim on all tuples of an operand '
     'pool (two small formats, wider Floats, int, float, Fraction, zeros, infinities, NaN) under contexts of every family and '
     'mode; TLC computes the exact result (Arith!Exact, integer root enclosures for the roots) and rounds it with Rounding!Expect.'),
     note='Small operands (31-bit exact intermediates). An explicit NotImplementedError is counted as "not offered", not judged. '
          'Sign of an exact cancellation under RTN and of a zero Python-mod result are open.'),
 'C05': dict(engine='NumberOps', text=(
     'Design level: MCNumberOps checks the transcription of RealFloat.__add__/__mul__/compare (one action per arm) on all pairs of '
     'small encodings, redundant encodings and zeros with arbitrary exponents included, against the denotational operators. '
     'Conformance: all ordered pairs of a pool of encodings/specials in every mix of Float, RealFloat, int, float, Fraction through '
     'the Python operators (+,-,*,**,neg,pos,abs, six comparisons, compare), conversions, hash (equal values hash equally), '
     'split, normalize, bit tests, judged by NumberOps!NumVerdict on denotations.'),
     note='TypeError / NotImplementedError on a pair of types (RealFloat + Float) is Python\'s refusal and is accepted; values are '
          'small (31-bit).'),
 'C16': dict(engine='Encoding', text=(
     'Design level: MCEncoding shows that for every valid format <= 5 bits the finite values the published bit layout decodes to are '
     'exactly the members of the core format C01 rounds into, that decode is injective off NaN, and that the specials agree. '
     'Conformance: for every EFloat/IEEE/two\'s-complement/sign-magnitude/exponential format up to the tier width, every bit pattern '
     'through the real decode/encode/to_ordinal/from_ordinal/next_up/next_down/normalize/representable_in plus a probe grid and '
     'largest/smallest, judged relationally by Encoding!TableVerdict (order-preserving contiguous bijection, stepping by one ordinal); '
     'ordinal windows of the unsized formats by WindowVerdict.'),
     note='Formats up to 5-6 bits (quick) / 8 bits (thorough); layouts are the specification\'s reading of the published formats.'),
 'C17': dict(engine='Stochastic', text=(
     'Design level: MCStochastic models _round_at_stochastic with the random source as a nondeterministic Draw(r) action and checks, '
     'over all draws of every small configuration, neighbour-only outcomes, one draw per rounding, functional dependence on (x, r) '
     'and the exact up-count; the pre-fix algorithm (MUT=1) is rejected. Conformance: a scripted random.Random returns every r in '
     '0..2^k-1; one record per (context, operand) with all 2^k results for every family with random bits, 8 modes, k in 1..4 and '
     '"all bits", sixteenths/thirds of gaps, judged by Stochastic!StochVerdict.'),
     note='Operands small; overflowing operands are left to C01.'),
}

TECH_M = ('explicit TLA+ abstract machine (FPyMachine) run by TLC on the real ASTs exported as data; conformance by judging '
          'recorded real-interpreter outcomes against the machine in the same TLC run')

CLAIMS.update({
 'C04': dict(engine='FPyMachine', technique=TECH_M, text=(
     'spec/FPyMachine.tla is a small-step reference semantics of FPy written from the language reference (one action per statement '
     'rule, call frames, store of list cells, active-context stack; rounded operators are Round(ctx, Exact(op))). Generated programs '
     '(source text -> real @fpy front end -> real AST -> JSON) are run by TLC for every recorded argument vector and caller context; '
     'the Judge action compares the machine outcome with what the real interpreter returned (value incl. sign of zero / NaN / lists / '
     'tuples, or an error), and the machine invariants CtxDiscipline and StoreGrowsOnly are checked on every transition. Hand-written '
     'programs cover what the generator does not reach (counting-down ranges, fp.empty in 1-3 dimensions, shared rows, slices) and the '
     'repository\'s own libraries (61 functions) run on the machine too. In addition spec/StmtTrace.tla validates statement-level '
     'traces of the REAL interpreter (sys.settrace; no hook): it keeps the stack of enclosing with-blocks and checks on every event '
     'that the compiled code\'s active context is the one the documented scoping gives (tampered traces are rejected on every run).'),
     note='Values bounded (numerator/denominator < 2^15, else the run is skipped and counted); binary64 as default context only on '
          'exactly representable results; wide Python values travel as opaque tokens; calls inside conditionals/comprehensions unsupported.'),
 'C07': dict(engine='Equiv', technique=TECH_M, text=(
     'spec/Equiv.tla runs the machine on the original program, then on the AST the real ConstFold / CopyPropagate / DeadCodeEliminate '
     'passes (alone, ordered pairs, simplify under enable_* combinations) produced, and requires the same outcome on every input on '
     'which the original returns, both for the machine on the transformed AST and for the recorded result of the real transformed '
     'Function. Transforms run under a wall-clock guard; non-termination is reported.'),
     note='Same bounds as C04. Configurations whose output is textually identical to the input or to another configuration are not re-run.'),
 'C08': dict(engine='Equiv', technique=TECH_M, text=(
     'As C07 with unroll_for (1-3, PEEL and STRICT), unroll_while, split (2-3 and a variable factor, PEEL/STRICT), elim_iter (both switches), fuse and compositions, the loop named by index, by cursor or not at all, on '
     'loop-heavy programs (bodies that reassign outer variables, mutate the iterated list, return early, nest loops), every list '
     'length 0..7 and low-precision caller contexts.'),
     note='STRICT is judged only where its divisibility precondition holds (an AssertionError of the guard is a skipped input). '
          'Known findings: elim_iter over a source list the body mutates; fuse hoisting a reduction out of a short-circuited operand.'),
 'C09': dict(engine='Equiv', technique=TECH_M, text=(
     'As C07 with inline (all sites, one site, one level), monomorphize under pinned caller contexts (the original evaluated with '
     'that context), close, lift_context and compositions on caller/callee programs: callees with and without their own context, '
     'called inside nested with-blocks and loops, mutating list arguments, clashing local names, calls in expression position.'),
     note='Known finding: inline hoists the callee body before the whole statement (evaluation order of an earlier list read).'),
})

CLAIMS.update({
 'C15': dict(engine='Scoping', technique='explicit TLA+ path machine + declarative scoping rules checked with TLC; accept/reject and run outcomes of the real front end / interpreter judged in the same run', text=(
     'spec/Scoping.tla holds the usage guide\'s scoping rules as a declarative environment computation and a path machine over '
     'def/use abstractions of programs. TLC checks that the rules are sound for the machine on every steering vector (design level), '
     'that a program the rules reject is not accepted by the real @fpy front end, and that every accepted program, run by the real '
     'interpreter on every combination of branch outcomes and trip counts 0/1/2, never reads an unbound name or falls off its end.'),
     note='Bounded grammar: assign, tuple pattern, if/else, one-armed if, for, while, with-as, comprehension, return; names a/b/e; '
          'depth <= 2; at most 36 steering vectors per program.'),
})

CLAIMS.update({
 'C20': dict(engine='EFT', technique=TECH_M, text=(
     'The real ASTs of fpy2.libraries.eft (ideal/fast/classic/priest 2sum, ideal/fast/classic 2mul, veltkamp_split, ideal_fma, '
     'classic_2fma) and core.ldexp, and the Python primitives split/modf/frexp (specified in the machine from their docstrings), are '
     'run by TLC on the abstract machine for every operand pair (triples on 2-bit operands) of small floating-point formats under '
     'the contexts each docstring allows; spec/EFT.tla checks the exact-recombination law on the machine result and compares it with '
     'what the real library returned.'),
     note='Formats p <= 4 (5 thorough), 3-5 binades, specials; preconditions are arranged by the harness (nearest rounding where '
          'required) or enforced by the function\'s own assert.'),
})

CLAIMS.update({
 'C10': dict(engine='Rounding', text=(
     'For every statically known source context C of the enumeration the program `with C: y = fp.round(x); return y` is built from '
     'text; every prefix of the documented chain monomorphize -> unfold_special -> unfold_overflow (early_check F/T) -> unfold_neg_zero '
     '-> float_to_fixed -> rescale_fixed -> simplify, every single rewrite, elim_round and insert_round is applied by the real strategy; '
     'the real lowered Function is run on every quarter-gap operand and special of C and TLC judges each result against '
     'Rounding!Expect(C, x), the declarative rounding oracle certified by MCRounding. Refusals are recorded, never judged.'),
     note='The lowered programs are evaluated by the real interpreter (they use constructors the abstract machine does not model); '
          'the oracle is the specification\'s. Contexts are a seeded slice of the C01 enumeration (1/40 quick, 1/4 thorough).'),
})

CLAIMS.update({
 'C06': dict(engine='Literal', technique='explicit TLA+ lexer state machine (decimal / binary normal forms) checked with TLC against the recorded front-end + interpreter result of every spelling', text=(
     'spec/Literal.tla reads each spelling character by character (one action per character class) into a decimal normal form '
     '(digit sequence without leading/trailing zeros and a power of ten) -- no big integers, so 40-digit mantissas and exponents of '
     '+-400 are within reach -- and compares it with the normal form of what the real @fpy front end and interpreter return under '
     'REAL for `return <literal>`; the same run checks that the lexer accepts exactly the strings Python accepts (every string of '
     '<= 4-5 characters over {0,1,9,.,e,-,+}). Hexadecimal-float strings use a binary normal form; rational(p,q), digits(m,e,b) and '
     'fp.round(<literal>) under narrow contexts are judged by exact rational comparison and the rounding oracle.'),
     note='Known finding (not repairable without breaking an existing test): decimal literals that are not binary64 values are read '
          'through Python\'s float.'),
})

CLAIMS.update({
 'C19': dict(engine='Cursor', technique='explicit TLA+ transcription of the edit-log forwarding algebra checked with TLC (design level: all small edit sets x cursors); recorded real sites / refusals / edit logs / forwarded cursors judged in mode V', text=(
     'spec/Cursor.tla transcribes EditLog.forward (per-block shift accumulation, containing edit -> region / statement / error, '
     'ancestor rewriting) and states the index discipline of `where` (None = all, 0..k-1 = exactly that site, k and -1 rejected), '
     'sites + refusals = candidates. MCCursor checks, for every set of <= 2 disjoint edits of a block and every cursor, that the '
     'forwarded cursor lands on a statement whose ancestry contains the original (a wrong shift rule is rejected). Conformance: programs '
     'whose statements carry unique literal markers x 8 aimable strategy configurations x every where; the real sites, refusals, outcome, '
     'edit log, both trees and Function.forward of EVERY old statement cursor are recorded and judged by Cursor!ApplyVerdict; chains '
     'of two strategies forward end to end.'),
     note='Statement-sited strategies and the expression-sited inline (every call carries a unique marker; expression cursors forwarded); insert_round sites are not enumerated; blocks <= 6 statements at design level.'),
})

CLAIMS.update({
 'C14': dict(engine='AbsFormat', technique='explicit TLA+ statement of format membership and of the soundness conditions of the abstract arithmetic, checked with TLC on recorded answers of the real analysis (mode V); program level: the abstract machine checks the inferred bound of every assignment / return while it runs the real AST (FmtMachine)', text=(
     'spec/AbsFormat.tla defines membership in a format bound (abstract number system: precision, quantum, bounds, each special, '
     'the negative zero; value sets; lists and tuples) and judges the real AbstractFormat +, -, *, neg, abs, |, &, <=, exact_binop / '
     'exact_unop on set / format mixes, round_is_identity and from_format on a pool of small formats, value sets and contexts of '
     'every family: the answer must contain the exact result (Arith!Exact) for EVERY pair of members of a candidate grid, a claimed '
     'containment must be inclusion, a claimed identity must leave every member unchanged under Rounding!Expect. Program level: '
     'hand + generated programs are analysed by the real FormatInfer.analyze under pinned scopes and argument formats; the bound of '
     'every assignment / return of the main function travels with the exported statement and spec/FmtMachine.tla checks, on every '
     'step of every run over argument vectors drawn from the argument formats, that the bound contains the value.'),
     note='Formats with precision <= 3, quantum 2^-2..2^1 and bounds <= 32 (part A); the main function only (callee instantiations are '
          'not annotated). Known findings: the sign-of-zero rule of abstract neg / mul, and sum() of a one-element list.'),
})

CLAIMS.update({
 'C18': dict(engine='Runtime', technique='explicit TLA+ model of the process-level runtime (threads, function cache, Python boundary, scoped MPFR settings) checked with TLC over all interleavings; TLC-generated schedules replayed on real threads and recorded histories validated against the specification', text=(
     'spec/Runtime.tla: two threads execute scripts of calls, each call seven steps (Begin, Lookup/compile, CopyIn, SetPrec, Op, Restore, '
     'CopyOut); a call\'s value is the tuple of everything it read. TLC checks SeqEquivalent (a function of the call alone), ArgsUntouched, '
     'NoSharedStructure, CacheByIdentity and MpfrScoped over every interleaving, and rejects five wrong designs (context in shared state, '
     'cache keyed by name, no copy at the boundary, process-wide MPFR precision, aliased result). Conformance: each history is one '
     'pristine process that first computes the result of every call ALONE (fork per call), then makes sequential calls over 19 functions '
     '(mutating / returning their list argument, nested containers, MPFR functions, own context, helpers, same-named twins, transformed '
     'copies, named constants) x 10 contexts with fresh interpreters in between, writes into every returned container, and runs two-thread phases stepped '
     'through schedules TLC generated from Runtime.tla (RuntimeSched, -simulate) at line granularity of BytecodeInterpreter.eval, gmputils\' scoped '
     'MPFR calls and the compiled function. Every completed call is a record judged by spec/RuntimeTrace.tla.'),
     note='Two threads, two calls each per phase; stepping sees Python line events only (a switch inside a C call cannot be forced; thorough adds free-running '
          'phases with a 1 us switch interval, whose failures are real but whose passes claim nothing). Known finding: functions that write to / return a captured list.'),
})

CLAIMS.update({
 'C13': dict(engine='FactMachine', technique=TECH_M + '; the facts the real analyses reported travel with the exported statements and are checked against the machine state on every step', text=(
     'spec/FactMachine.tla conjoins FactStep to every transition of the abstract machine: the type of the value an assignment binds '
     '(TypeInfer), concrete list lengths and lengths reported equal to a parameter\'s (ArraySizeInfer), the value classes of the '
     'definition (ValueClassInfer), the constant an expression is reported to be (PartialEval), for every variable a statement reads '
     'that the statement which last defined it (tracked by the extra variable dsite, loop re-bindings included) is among the definitions '
     'listed as reaching the read (DefineUse / ReachingDefs, phi nodes expanded), and that any two names of the frame holding the same '
     'list cell are reported as possibly aliased (Alias regions). Hand + generated programs x argument vectors x caller contexts; the '
     'run outcome is judged against the real interpreter as in C04. The same facts (plus conditions reported constant, facts about '
     'returned expressions, and purity as a frame condition on statements whose calls are all reported pure) are checked by '
     'spec/StmtTrace.tla on statement-level traces of the REAL interpreter, which also covers programs with calls, isnormal, binary64 '
     'arithmetic and the library functions.'),
     note='Main function only, programs without user calls; size facts are judged on runs that complete (sizes are unified from the '
          'preconditions of later operations such as zip). escape / live_vars facts are not attached; a fact about a sub-expression is '
          'observed only through an assignment, a return or a whole condition.'),
})

CLAIMS.update({
 'C03': dict(engine='Elementary', text=(
     'spec/Elementary.tla states the step the property is about: given an enclosure lo <= true value <= hi, rounding is monotone, so '
     'when Rounding!Expect(ctx, lo) and Rounding!Expect(ctx, hi) are one and the same outcome the code must have returned it, flagged '
     'inexact exactly when the true value is not the operand of an exact case. The enclosure is computed by MPFR (gmpy2) at 160 bits with '
     'directed rounding and reduced outward to 22 significant bits. 24 unary and 2 binary functions and the 12 named constants x dyadic '
     'operands x contexts of precision 1..8 (10 thorough) in all 8 modes, with a subnormal range, with overflow, and fixed-point targets '
     '(the two-pass precision selection).'),
     note='Trusted base: MPFR\'s directed rounding. Small contexts (every family feature: subnormals, overflow, fixed-point position) are decided '
          'by Rounding!Expect where both ends of the 22-bit enclosure round alike (the rest is counted as inconclusive). Wide precisions (24 .. 237 '
          'digits quick, .. 500 thorough; MPFloat contexts, all 8 modes) are decided by spec/WideRound.tla on multi-limb integers: the enclosure of the '
          'true magnitude must lie inside the interval of reals that round to the returned significand (MCWideRound checks the limb arithmetic).'),
})

CLAIMS.update({
 'C12': dict(engine='FPyMachine', technique=TECH_M + '; the same machine run is the expectation for the reference FPCore evaluator on the compiled core and for the re-read function', text=(
     'Programs of the FPCore-expressible subset (explicitly rounded constants, sequential and nested with-blocks with statements after an '
     'inner block, if / while / for, tuples, fixed-size lists, reductions) are generated as source text. The abstract machine runs the real '
     'front-end AST on every argument vector; MCMachine!Judge compares its outcome with three observed ones: the real interpreter on the '
     'original, titanfp\'s Interpreter on FPCoreCompiler().compile(f), and the real interpreter on Function.from_fpcore(compile(f)).'),
     note='Small IEEE formats with a wide exponent range (titanfp\'s overflow under the directed modes is not IEEE\'s: those cases are counted, '
          'not judged); titanfp is a trusted external evaluator. Known finding: the continuation of a with-block is emitted inside its annotation.'),
})

CLAIMS.update({
 'C11': dict(engine='Agree', technique='explicit TLA+ statement of bit-for-bit agreement checked with TLC over recorded (interpreter, compiled code) result pairs (mode V); in-domain runs additionally judged against the abstract machine run of the real AST', text=(
     'Programs built only from operations a C++ toolchain rounds correctly are generated as source text (double and float contexts under '
     'the four hardware rounding modes, nested with-blocks, branches, range / list / while loops, tuples, lists handed to helpers that write '
     'to them), compiled by the real CppCompiler under several option sets (optimize, unbox NEVER / ALLOW / STRICT, static arrays), built with '
     'g++ -O0 with the driver the repository\'s own test infrastructure emits, and run on argument vectors with zeros, a '
     'subnormal, infinities and NaN. spec/Agree.tla decides every (interpreter, compiled) pair: same shape, lengths, booleans and number bits '
     '(sign of zero counts, NaN agrees with NaN; wide numbers travel as tokens). Runs whose values stay inside the machine\'s domain are also '
     'judged by MCMachine!Judge against the machine run of the real AST.'),
     note='The oracle for wide (binary64) values is the interpreter itself, as the property states; g++ and libm are trusted for the allowed operations. '
          'A program the backend refuses under an option set is counted, not judged.'),
})

ENGINES = [
 ('Agree', 'spec/Agree.tla', ['C07', 'C08', 'C09', 'C11', 'C12'], 'bit-for-bit agreement of result structures (compiled code vs interpreter; transformed vs original on interpreter outcomes; FPCore reference evaluator vs re-read function)'),
 ('StmtTrace', 'spec/StmtTrace.tla', ['C04', 'C13'], 'trace validation of the real interpreter at statement grain (sys.settrace, no hook): environment, definition sites and the stack of with-block contexts as specification state'),
 ('Elementary', 'spec/Elementary.tla', ['C03'], 'correct rounding given an enclosure of the true value'),
 ('WideRound', 'spec/WideRound.tla', ['C03'], 'correct rounding at wide precisions on multi-limb integers'),
 ('FactMachine', 'spec/FactMachine.tla', ['C13'], 'abstract machine with analysis facts checked on every step'),
 ('Runtime', 'spec/Runtime.tla', ['C18'], 'process-level runtime model: threads, cache, boundary copies, scoped MPFR settings'),
 ('RuntimeSched', 'spec/RuntimeSched.tla', ['C18'], 'schedule generator (history variable over Runtime behaviours)'),
 ('RuntimeTrace', 'spec/RuntimeTrace.tla', ['C18'], 'trace validation of recorded call histories'),
 ('AbsFormat', 'spec/AbsFormat.tla', ['C14'], 'membership in format bounds; soundness conditions of the abstract arithmetic'),
 ('FmtMachine', 'spec/FmtMachine.tla', ['C14'], 'abstract machine with run-time membership checks of inferred bounds'),
 ('Cursor', 'spec/Cursor.tla', ['C19'], 'edit-log forwarding algebra and site index discipline'),
 ('MCCursor', 'spec/MCCursor.tla', ['C19'], 'design-level check of forwarding on all small edit sets'),
 ('Num', 'spec/Num.tla', ['C01', 'C02', 'C05', 'C16', 'C17'], 'exact rational / special-value numbers'),
 ('Rounding', 'spec/Rounding.tla', ['C01', 'C02', 'C10', 'C16', 'C17'], 'context families, core formats, rounding function, expectations'),
 ('MCRounding', 'spec/MCRounding.tla', ['C01'], 'design-level model of RealFloat._round_at'),
 ('Arith', 'spec/Arith.tla', ['C02', 'C05'], 'exact arithmetic with IEEE specials'),
 ('MCReRound', 'spec/MCReRound.tla', ['C02'], 'round-to-odd re-rounding lemma'),
 ('NumberOps', 'spec/NumberOps.tla', ['C05'], 'denotational statement of the number types'),
 ('Encoding', 'spec/Encoding.tla', ['C16'], 'bit layouts and ordinal relations'),
 ('Stochastic', 'spec/Stochastic.tla', ['C17'], 'stochastic rounding count law'),
 ('FPyMachine', 'spec/FPyMachine.tla', ['C04', 'C07', 'C08', 'C09', 'C11', 'C12', 'C13', 'C14', 'C20'], 'small-step abstract machine for FPy programs (real ASTs as data)'),
 ('MCMachine', 'spec/MCMachine.tla', ['C04'], 'machine runs judged against recorded interpreter outcomes; machine invariants'),
 ('EFT', 'spec/EFT.tla', ['C20'], 'laws of the error-free transformations on machine runs'),
 ('Literal', 'spec/Literal.tla', ['C06'], 'literal lexer and normal forms'),
 ('Scoping', 'spec/Scoping.tla', ['C15'], 'scoping rules and path machine'),
 ('Equiv', 'spec/Equiv.tla', ['C07', 'C08', 'C09'], 'two-phase machine: original vs transformed program'),
]


def main():
    props = [json.loads(l) for l in open(os.path.join(HERE, 'properties.jsonl'))]
    extra = {}
    p = os.path.join(HERE, 'tools', 'claims_extra.json')
    if os.path.exists(p):
        extra = json.load(open(p))
    claims = dict(CLAIMS)
    claims.update(extra.get('claims', {}))
    na = extra.get('not_applicable', {})
    man = {
        'version': 1,
        'setup_cmd': 'cd /verif && ./setup.sh',
        'hooks': {'guard': 'FPY_VERIF',
                  'enable': 'none - no source hooks: all observation goes through the public API and harness-side subclasses',
                  'baseline_off_cmd': BASE, 'source_commits': [], 'add_only': True},
        'engines': [{'name': n, 'path': pth, 'serves_properties': sp, 'kind_free_text': k} for n, pth, sp, k in ENGINES]
                   + extra.get('engines', []),
        'checks': [], 'not_applicable': [],
        'notes': 'All checks: ./check <id> --tier quick|thorough; exit 0 held, 1 violation (VIOLATION line), 2 machinery failure. '
                 'Repairs of genuine defects are "fix:" commits in /repo, listed as fixed in known_findings.json.',
    }
    for pr in props:
        pid = pr['id']
        if pid in claims:
            c = claims[pid]
            man['checks'].append({
                'property_id': pid, 'quick_cmd': f'./check {pid} --tier quick', 'thorough_cmd': f'./check {pid} --tier thorough',
                'evidence_file': f'/verif/evidence/{pid}.json', 'replay_cmd_template': f'./check {pid} --replay {{path}}',
                'engine': c['engine'],
                'level_claimed': {'category': 'model_checking', 'text': c['text'], 'design_ref': f'DESIGN.md section 5, {pid}'},
                'level_note': c['note'], 'technique': c.get('technique', TECH)})
        else:
            man['not_applicable'].append({'property_id': pid, 'reason': na.get(
                pid, 'check not built yet in this round (planned with the same technique, see DESIGN.md section 5)')})
    json.dump(man, open(os.path.join(HERE, 'MANIFEST.json'), 'w'), indent=1)
    print('claimed', [c['property_id'] for c in man['checks']])


if __name__ == '__main__':
    main()
