#!/bin/sh
# usage: final_sweep.sh [out]   every quick check under VERIF_SEED=1..4, then unseeded last (evidence files are those of the last run)
OUT=${1:-/tmp/final-sweep.out}
: > $OUT
cd /verif
for sd in 1 2 3 4 ""; do
  for n in 01 02 03 04 05 06 07 08 09 10 11 12 13 14 15 16 17 18 19 20; do
    if [ -n "$sd" ]; then r=$(VERIF_SEED=$sd ./check C$n --tier quick 2>&1 | grep -v "^KNOWN" | tail -n 1 | cut -c1-200); else r=$(./check C$n --tier quick 2>&1 | grep -v "^KNOWN" | tail -n 1 | cut -c1-200); fi
    echo "seed=${sd:-none} $r" >> $OUT
  done
done
echo done >> $OUT
