import json,glob,os,sys
fs=sorted(glob.glob('/verif/replay/C14-*.json'), key=os.path.getmtime)
latest=max(os.path.getmtime(x) for x in fs)
def sh(v):
    if v['k']=='fin': return ('-' if v['s'] else '')+ (str(v['n']) if v['d']==1 else f"{v['n']}/{v['d']}")
    if v['k'] in ('list','tuple'): return [sh(x) for x in v['v']]
    return ('-' if v.get('s') else '')+v['k']
for f in fs:
    if os.path.getmtime(f) < latest-30: continue
    d=json.load(open(f))
    if not d['key'].get('clause','').startswith('inferred-format-misses-'+(sys.argv[1] if len(sys.argv)>1 else 'value')): continue
    seen=set()
    for c in d['cases']:
        key=(c['config']['program'], c['where'])
        if key in seen: continue
        seen.add(key)
        print('=====', c['config']['scope'][:70], '|', c['config']['arg_format'][:60], '| stmt', c['where'])
        print(c['program'])
        print('args', [sh(x) for x in c['input']['args']], 'out', sh(c['input']['out']['val']) if 'val' in c['input']['out'] else c['input']['out'])
        print('bound', json.dumps(c['bound'])[:600])
