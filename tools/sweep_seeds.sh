#!/bin/sh
# usage: sweep_seeds.sh [out-file]
# Every kept seed against its property's quick check, each in a scratch worktree (tools/try_seed_wt.sh): one line per seed.
OUT=${1:-/tmp/seed-sweep.out}
: > $OUT
for d in /verif/seeded/*/; do
  s=$(basename $d); p=${s%%-*}
  r=$(/verif/tools/try_seed_wt.sh $d/patch.diff $p quick 2>&1 | tr '\n' ' ' | cut -c1-400)
  case "$r" in
    *APPLY_FAILED*) echo "$s APPLY_FAILED" >> $OUT;;
    *VIOLATION*) echo "$s caught: $(echo "$r" | grep -o 'violations=[0-9]*' | head -1)" >> $OUT;;
    *) echo "$s MISSED: $r" >> $OUT;;
  esac
done
echo done >> $OUT
