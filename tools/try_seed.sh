#!/bin/sh
# usage: try_seed.sh <patch.diff> <Cxx> [tier]   -- applies the patch to /repo, runs the check, reverts.
P=$1; PROP=$2; TIER=${3:-quick}
cd /repo && git apply $P || { echo APPLY_FAILED; exit 2; }
cd /verif && ./check $PROP --tier $TIER > /tmp/try-$PROP.out 2>&1; RC=$?
git -C /repo checkout -- .
echo "check_rc=$RC"; grep -c VIOLATION /tmp/try-$PROP.out; grep -m3 "VIOLATION\|key=" /tmp/try-$PROP.out | cut -c1-300; tail -1 /tmp/try-$PROP.out
exit 0
