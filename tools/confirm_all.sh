#!/bin/sh
# usage: confirm_all.sh name1 name2 ...   (seed dirs /tmp/seed-<name>)
for n in "$@"; do
  /verif/tools/confirm_seed.sh /tmp/seed-$n $n
done
