#!/usr/bin/env python3
"""usage: keep_seed.py <name e.g. C16-1> <caught: yes|no> <check summary text>
Copies /tmp/seed-<name>/ into /verif/seeded/<name>/ with a meta.json (after confirm_seed.sh ran)."""
import json, os, shutil, sys
name, caught, summary = sys.argv[1], sys.argv[2], sys.argv[3]
src = f'/tmp/seed-{name}'
dst = f'/verif/seeded/{name}'
os.makedirs(dst, exist_ok=True)
for f in ('patch.diff', 'demo.py', 'note.txt'):
    shutil.copy(os.path.join(src, f), os.path.join(dst, f))
conf = open(os.path.join(src, 'confirm.txt')).read() if os.path.exists(os.path.join(src, 'confirm.txt')) else ''
lines = [l for l in conf.splitlines() if not l.startswith('...')]
meta = {
    'property': name.split('-')[0],
    'what_it_needs_to_manifest': open(os.path.join(src, 'note.txt')).read()[:1500],
    'confirmed': {
        'how': 'tools/confirm_seed.sh in a scratch worktree of /repo HEAD: demo.py with the patch (must fail), full pytest suite with the patch '
               '(must pass), demo.py without the patch (must pass); worktree removed afterwards',
        'result': lines,
    },
    'detected_by_check': caught == 'yes',
    'check_run': f'git -C /repo apply seeded/{name}/patch.diff && ./check {name.split("-")[0]} --tier quick ; git -C /repo checkout -- .',
    'check_summary': summary,
}
json.dump(meta, open(os.path.join(dst, 'meta.json'), 'w'), indent=1)
print('kept', dst)
