#!/usr/bin/env python3
"""Regenerates the generated tables of DESIGN.md section 10 (between the BEGIN/END GENERATED markers) from
known_findings.json, seeded/*/meta.json and MANIFEST.json."""
import glob
import json
import os
import re

HERE = os.path.dirname(os.path.dirname(os.path.abspath(__file__)))


def main():
    kf = json.load(open(os.path.join(HERE, 'known_findings.json')))
    man = json.load(open(os.path.join(HERE, 'MANIFEST.json')))
    out = []
    out.append('#### 10.G1 Genuine defects repaired in /repo (one `fix:` commit each)\n')
    out.append('| property | commit | what failed |')
    out.append('|---|---|---|')
    for e in kf:
        if e['status'] == 'fixed':
            what = re.sub(r'^fixed: property=\S+ \S+ ', '', e['what']).replace('|', '\\|')
            out.append(f"| {e['property']} | `{e['commit']}` | {what} |")
    out.append('\n#### 10.G2 Genuine defects recorded as known findings (not repaired)\n')
    out.append('| property | key the check matches | what fails, and why it is not repaired |')
    out.append('|---|---|---|')
    for e in kf:
        if e['status'] == 'known':
            out.append(f"| {e['property']} | `{json.dumps(e['key'])}` | {e['what'].replace('|', chr(92) + '|')} |")
    out.append('\n#### 10.G3 Seeded changes (sub-agents, property text only) and which check catches them\n')
    out.append('| seed | file touched | caught by the quick check | check summary |')
    out.append('|---|---|---|---|')
    for d in sorted(glob.glob(os.path.join(HERE, 'seeded', '*'))):
        mp = os.path.join(d, 'meta.json')
        if not os.path.exists(mp):
            continue
        m = json.load(open(mp))
        patch = open(os.path.join(d, 'patch.diff')).read()
        files = sorted(set(re.findall(r'^\+\+\+ b/(\S+)', patch, re.M)))
        out.append(f"| {os.path.basename(d)} | {', '.join('`' + f + '`' for f in files)} | {'yes' if m['detected_by_check'] else 'NO'} | "
                   f"{m['check_summary'].replace('|', chr(92) + '|')} |")
    out.append('\n#### 10.G4 Claimed and unclaimed properties\n')
    out.append('claimed: ' + ', '.join(c['property_id'] for c in man['checks']) + '\n')
    for n in man['not_applicable']:
        out.append(f"* not claimed: **{n['property_id']}** — {n['reason']}")
    text = '\n'.join(out) + '\n'
    p = os.path.join(HERE, 'DESIGN.md')
    s = open(p).read()
    a, b = '<!-- BEGIN GENERATED -->', '<!-- END GENERATED -->'
    if a not in s:
        raise SystemExit('markers missing in DESIGN.md')
    s = s[:s.index(a) + len(a)] + '\n' + text + s[s.index(b):]
    open(p, 'w').write(s)
    print('DESIGN.md tables regenerated')


if __name__ == '__main__':
    main()
