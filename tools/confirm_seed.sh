#!/bin/sh
# usage: confirm_seed.sh <seed-dir> <name>
# Confirms a seeded change in a scratch worktree: demo fails with the patch and passes without it,
# and the repository's test suite still passes with the patch.  Writes <seed-dir>/confirm.txt.
# The worktree (and its build output) is removed at the end.
SEED=$1; NAME=$2
WT=/tmp/chk-$NAME
OUT=$SEED/confirm.txt
: > $OUT
git -C /repo worktree add -q --detach $WT HEAD || exit 2
cd $WT
if ! git apply $SEED/patch.diff; then echo "PATCH_DOES_NOT_APPLY" >> $OUT; cd /; git -C /repo worktree remove --force $WT; exit 1; fi
PYTHONPATH=$WT /venv/bin/python $SEED/demo.py > /tmp/demo-$NAME.out 2>&1; echo "demo_with_patch_rc=$?" >> $OUT
PYTHONPATH=$WT timeout 3000 /venv/bin/python -m pytest -q -p no:cacheprovider -n 5 --timeout=900 tests > /tmp/tests-$NAME.out 2>&1; echo "tests_rc=$?" >> $OUT
tail -3 /tmp/tests-$NAME.out >> $OUT
git checkout -q -- .
PYTHONPATH=$WT /venv/bin/python $SEED/demo.py > /tmp/demo0-$NAME.out 2>&1; echo "demo_without_patch_rc=$?" >> $OUT
cd /
git -C /repo worktree remove --force $WT
rm -f /tmp/demo-$NAME.out /tmp/demo0-$NAME.out
echo done >> $OUT
