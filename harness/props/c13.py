"""
C13 -- Static analysis facts hold on every execution.

Generated and hand-written programs are analysed by the real TypeInfer, ArraySizeInfer, ValueClassInfer, PartialEval,
DefineUse / ReachingDefs and Alias; what they report travels with the exported statements of the main function, and
spec/FactMachine.tla checks every fact against the abstract machine's state on every step of every run (all recorded
argument vectors and caller contexts); the run's outcome is judged against the real interpreter as in C04.
"""
from __future__ import annotations

import random
import shutil
import tempfile
from collections import Counter

import fpy2 as fp
from fpy2.analysis import Alias, ArraySizeInfer, DefineUse, PartialEval, TypeInfer, ValueClassInfer
from fpy2.analysis.array_size import ListSize, TupleSize
from fpy2.analysis.reaching_defs import AssignDef, PhiDef
from fpy2.analysis.value_class import ValueClass
from fpy2.ast import fpyast as A
from fpy2.types import BoolType, ContextType, ListType, RealType, TupleType
from fpy2.utils import NamedId

from .. import core, gen_prog, progrun
from ..export import OutOfDomain
from ..export_prog import Unsupported, _slots, export_program, value_json

PROFILES = [
    {'loops': 0.3, 'lists': 0.3, 'with': 0.15, 'calls': 0.0, 'early_return': 0.15, 'tuples': 0.1, 'stmts': (3, 7)},
    {'loops': 0.4, 'lists': 0.4, 'with': 0.1, 'calls': 0.0, 'copies': 0.3, 'stmts': (3, 7)},
    {'loops': 0.2, 'lists': 0.15, 'with': 0.3, 'calls': 0.0, 'consts': 0.4, 'stmts': (3, 7)},
]

HAND = {
    'hand_alias': '''@fp.fpy
def hand_alias(x: fp.Real, y: fp.Real, xs: list[fp.Real], k: fp.Real):
    ys = xs
    zs = [x, y]
    ws = [zs, xs]
    t = ws[0]
    u = ws[1]
    t[0] = y
    u[0] = x
    vs = xs[0:2]
    return (ys, zs, t, u, vs)''',
    'hand_alias_loop': '''@fp.fpy
def hand_alias_loop(x: fp.Real, y: fp.Real, xs: list[fp.Real], k: fp.Real):
    a = [x, y]
    b = [y, x]
    rows = [a, b]
    c = a
    for r in rows:
        c = r
        r[0] = r[0] + 1
    p, q = (b, a)
    return (c, p, q)''',
    'hand_alias_deep': '''@fp.fpy
def hand_alias_deep(x: fp.Real, y: fp.Real, xs: list[fp.Real], k: fp.Real):
    row = [x, y]
    other = [y, x]
    m = [[other, other], [other, other]]
    m[0][1] = row
    got = m[0][1]
    got[0] = 99
    back = m[1][0]
    n2 = [m, m]
    n2[1][0][0] = xs
    deep = n2[0][0][0]
    return (row[0], got, back, deep)''',
    'hand_cond_zip': '''@fp.fpy
def hand_cond_zip(x: fp.Real, y: fp.Real, xs: list[fp.Real], k: fp.Real):
    acc = 0
    ys = xs
    if x > 100:
        for a, b in zip(xs, [1.0, 2.0, 3.0]):
            acc = acc + a * b
    zs = [e for e in xs]
    t = [acc + e for e in zs] if y > 100 else [b2 + a2 for a2, b2 in zip(xs, [x, y])]
    return (acc + len(xs), ys, zs, len(t))''',
    'hand_early_return_zip': '''@fp.fpy
def hand_early_return_zip(x: fp.Real, y: fp.Real, xs: list[fp.Real], k: fp.Real):
    for e in xs:
        if e > 100:
            return e
    if len(xs) < 3:
        return x
    ws = [x, y, x]
    acc = 0
    for a, b in zip(ws, xs):
        acc = acc + a * b
    return acc''',
    'hand_phi': '''@fp.fpy
def hand_phi(x: fp.Real, y: fp.Real, xs: list[fp.Real], k: fp.Real):
    a = x
    i = 0
    while i < k:
        if a > 2:
            a = a - y
        else:
            b = a * 2
            a = b
        with fp.REAL:
            i = i + 1
    for e in xs:
        if e > a:
            a = e
    return a''',
    'hand_sizes': '''@fp.fpy
def hand_sizes(x: fp.Real, y: fp.Real, xs: list[fp.Real], k: fp.Real):
    ys = [e + x for e in xs]
    zs = [a * b for a, b in zip(xs, ys)]
    ws = [x, y, x]
    n = len(ws)
    vs = xs[1:]
    us = [0 for _ in range(3)]
    ps = [(i, e) for i, e in enumerate(xs)]
    if x > 0:
        ts = ws
    else:
        ts = [y, x, y]
    return (ys, zs, n, vs, us, ps, ts)''',
    'hand_class': '''@fp.fpy
def hand_class(x: fp.Real, y: fp.Real, xs: list[fp.Real], k: fp.Real):
    a = x / y
    b = x - x
    c = abs(x) + 1
    if fp.isnan(a):
        d = 0
    elif fp.isinf(a):
        d = 1
    else:
        d = a * 0
    e = fp.sqrt(x)
    f = x * x
    if x == 0:
        g = x
    else:
        g = 1 / x
    return (a, b, c, d, e, f, g)''',
    'hand_const': '''@fp.fpy
def hand_const(x: fp.Real, y: fp.Real, xs: list[fp.Real], k: fp.Real):
    a = 1.5
    b = a * 2 + 0.25
    with fp.MPFloatContext(2):
        c = b / 3
        d = a + 0.125
    if b > 3:
        e = c
    else:
        e = x
    f = [a, b][0]
    g = (a, c)
    return (b, c, d, e, f, g)''',
}


TRACE_HAND = {
    'hand_for_shadow': '''@fp.fpy
def hand_for_shadow(x: fp.Real, y: fp.Real, xs: list[fp.Real], k: fp.Real):
    a = 0
    for a in xs:
        pass
    b = a + 1
    return a, b''',
    'hand_nested_while': '''@fp.fpy(ctx=fp.FP64)
def hand_nested_while(x: fp.Real, y: fp.Real, xs: list[fp.Real], k: fp.Real):
    i = 0
    t = 0
    while i < k:
        j = i
        while j < 1 and t < 3:
            j = j * 1
            t = t + 1
        i = i + 1
    return t''',
    'hand_alias_const': '''@fp.fpy(ctx=fp.FP64)
def hand_alias_const(x: fp.Real, y: fp.Real, xs: list[fp.Real], k: fp.Real):
    us = [1, 2, 3]
    vs = us
    vs[0] = 5
    w = us[0]
    return us[0]''',
    'hand_isnormal': '''@fp.fpy
def hand_isnormal(x: fp.Real, y: fp.Real, xs: list[fp.Real], k: fp.Real):
    if fp.isnormal(x):
        a = x
    else:
        a = x
    b = 1
    if not fp.isnormal(y):
        b = y
    with fp.REAL:
        c = 1
        if fp.isnormal(y):
            c = abs(y)
        else:
            c = -y
    return a, b, c''',
    'hand_class_tests': '''@fp.fpy
def hand_class_tests(x: fp.Real, y: fp.Real, xs: list[fp.Real], k: fp.Real):
    a = 1
    if fp.isfinite(x):
        a = x
    else:
        a = x
    b = 1
    if fp.isinf(y):
        b = y
    else:
        b = y
    c = 1
    if fp.isnan(x):
        c = x
    else:
        c = x
    d = 1
    if x == 0:
        d = x
    else:
        d = x
    e = 1
    if y != y:
        e = y
    if x < 0:
        e = x
    with fp.REAL:
        f = 1
        if fp.isfinite(y) and not x == 0:
            f = y * x
    return a, b, c, d, e, f''',
    'hand_purity_callees': '''@fp.fpy
def hand_pc_alias(zs: list[fp.Real]) -> fp.Real:
    ys = zs
    if len(ys) > 0:
        ys[0] = 7
    return 0

@fp.fpy
def hand_pc_loop(zs: list[fp.Real]) -> fp.Real:
    for i in range(len(zs)):
        zs[i] = 0
    return 0

@fp.fpy
def hand_pc_row(zs: list[fp.Real], a: fp.Real) -> fp.Real:
    m = [zs, [a, a]]
    r = m[0]
    if len(r) > 1:
        r[1] = 1
    t = (zs, 3)
    p, q = t
    if len(p) > 0:
        p[0] = 2
    return 0

@fp.fpy
def hand_pc_local(zs: list[fp.Real], a: fp.Real) -> fp.Real:
    us = [a, a]
    vs = us
    vs[0] = 1
    ws = zs[0:len(zs)]
    if len(ws) > 0:
        ws[0] = 5
    return us[0]

@fp.fpy
def hand_purity_callees(x: fp.Real, y: fp.Real, xs: list[fp.Real], k: fp.Real):
    a = [x, y, 1]
    t1 = hand_pc_alias(a)
    b = [y, x]
    t2 = hand_pc_loop(b)
    c = [x, x, y]
    t3 = hand_pc_row(c, y)
    d = [y, y]
    t4 = hand_pc_local(d, x)
    e = [x]
    if hand_pc_loop(e) > 0:
        t4 = 1
    return (a, b, c, d, e)''',
    'hand_failed_and': '''@fp.fpy
def hand_failed_and(x: fp.Real, y: fp.Real, xs: list[fp.Real], k: fp.Real):
    if fp.isfinite(x) and fp.isfinite(y):
        r = 1
    else:
        r = x
    s = 1
    if fp.isnan(x) or fp.isnan(y):
        s = 2
    else:
        s = y
    u = 1
    if not (x == 0 and y == 0):
        u = x
    return r, s, u''',
    'hand_half_return': '''@fp.fpy
def hand_half_return(x: fp.Real, y: fp.Real, xs: list[fp.Real], k: fp.Real):
    if x > 0:
        v = 2
        if y > 0:
            return 7
        else:
            w = 1
    else:
        v = 3
    z = v + 1
    if k > 2:
        q = 5
        if x > 1:
            q = 6
        else:
            return z
    else:
        q = 4
    return v + q''',
    'hand_with_dynamic_const': '''@fp.fpy(ctx=fp.FP64)
def hand_with_dynamic_const(x: fp.Real, y: fp.Real, xs: list[fp.Real], k: fp.Real):
    with fp.IEEEContext(5, k + 9):
        t = 1 / 3
    with fp.MPFloatContext(k + 2):
        u = 1 / 3
    return t, u''',
}


def ty_json(t):
    if isinstance(t, RealType):
        return {'t': 'real'}
    if isinstance(t, BoolType):
        return {'t': 'bool'}
    if isinstance(t, ContextType):
        return {'t': 'ctx'}
    if isinstance(t, ListType):
        return {'t': 'list', 'e': ty_json(t.elt)}
    if isinstance(t, TupleType):
        return {'t': 'tuple', 'es': [ty_json(x) for x in t.elts]}
    return {'t': 'any'}


def sz_json(b):
    if isinstance(b, ListSize):
        return {'list': {'n': b.size if isinstance(b.size, int) else -1, 'e': sz_json(b.elt)}}
    if isinstance(b, TupleSize):
        return {'tuple': [sz_json(x) for x in b.elts]}
    return {'none': True}


def vc_json(v):
    if v is None:
        return ['top']
    out = []
    for flag, name in ((ValueClass.NAN, 'nan'), (ValueClass.INF, 'inf'), (ValueClass.ZERO, 'zero'), (ValueClass.FINITE, 'fin')):
        if flag in v:
            out.append(name)
    return out


def reaching(du, d, seen=None):
    """the assignment definitions a (phi-)definition stands for"""
    seen = set() if seen is None else seen
    if isinstance(d, AssignDef):
        return {d}
    if d in seen:
        return set()
    seen.add(d)
    return reaching(du, du.defs[d.lhs], seen) | reaching(du, du.defs[d.rhs], seen)


def annotate(prog, pe, fn, stats):
    ast = fn.ast
    du = DefineUse.analyze(ast)
    ti = TypeInfer.check(ast, def_use=du)
    pev = PartialEval.apply(ast, def_use=du)
    sz = ArraySizeInfer.analyze(ast, partial_eval=pev, type_info=ti)
    vc = ValueClassInfer.analyze(ast, def_use=du, type_info=ti)
    al = Alias.analyze(ast, def_use=du, type_info=ti)
    ex = pe.exporters[prog['main']]
    by_nid, owner = {}, {}

    def walk(node, stmt):
        if isinstance(node, A.Ast):
            by_nid[ex.ids.get(id(node), -1)] = node
            s2 = node if isinstance(node, A.Stmt) else stmt
            owner[id(node)] = s2
            for s in _slots(node):
                walk(getattr(node, s, None), s2)
        elif isinstance(node, (list, tuple)):
            for x in node:
                walk(x, stmt)
    walk(ast.body, None)

    def site_id(d):
        if isinstance(d.site, A.Stmt):
            return ex.ids.get(id(d.site), -9)
        if isinstance(d.site, A.ListComp):
            return -7
        return -2 if not d.is_free else -3

    # names defined exactly once, as parameters
    params = {a.name for a in ast.args if isinstance(a.name, NamedId)}
    single = {n for n in params if len([d for d in du.name_to_defs.get(n, ()) if isinstance(d, AssignDef)]) == 1}
    pdefs = {n: next(d for d in du.name_to_defs[n] if isinstance(d, AssignDef)) for n in single}

    # uses per owning statement (only the statement's own expressions, not nested blocks; comprehension-local reads skipped)
    uses_of = {}
    for use, d in du.use_to_def.items():
        if isinstance(use, A.Var):
            name = use.name
        elif isinstance(use, A.IndexedAssign):
            name = use.var
        else:
            continue
        st = owner.get(id(use)) if not isinstance(use, A.Stmt) else use
        if st is None:
            continue
        rs = reaching(du, d)
        if any(isinstance(r.site, A.ListComp) for r in rs):
            continue
        uses_of.setdefault(id(st), []).append({'n': str(name), 'ds': sorted({site_id(r) for r in rs})})
    nfacts = 0
    for blk in prog['funcs'][prog['main']]['blocks']:
        for st in blk:
            node = by_nid.get(st.get('id', -1))
            if node is None or not isinstance(node, A.Stmt):
                continue
            if id(node) in uses_of:
                st['uses'] = uses_of[id(node)]
                nfacts += len(st['uses'])
            if st['k'] == 'Assign' and isinstance(node, A.Assign) and st['t']['k'] == 'name':
                d = du.site_to_def.get((node.target, node))
                if d is None:
                    continue
                st['ty'] = ty_json(ti.by_def.get(d))
                b = sz.by_def.get(d)
                st['sz'] = sz_json(b)
                st['eqp'] = []
                if isinstance(b, ListSize) and b.size is not None:
                    for n, pd in pdefs.items():
                        pb = sz.by_def.get(pd)
                        if isinstance(pb, ListSize) and pb.size is not None and pb.size == b.size:
                            st['eqp'].append(str(n))
                st['vc'] = vc_json(vc.by_def.get(d))
                if node.expr in pev.by_expr:
                    try:
                        st['pe'] = value_json(pev.by_expr[node.expr])
                    except (Unsupported, OutOfDomain):
                        pass
                nfacts += 4
    # facts about the parameters themselves
    pf = []
    for a in ast.args:
        if not isinstance(a.name, NamedId):
            continue
        d = du.site_to_def.get((a.name, a))
        if d is None:
            continue
        pf.append({'n': str(a.name), 'ty': ty_json(ti.by_def.get(d)), 'sz': sz_json(sz.by_def.get(d)), 'vc': vc_json(vc.by_def.get(d))})
    prog['pfacts'] = pf
    nfacts += 3 * len(pf)
    # may-alias pairs of names: some definitions of the two names share a region
    regs = {}
    for d in al.all_defs():
        r = al.region_of(d)
        if r is not None:
            regs.setdefault(id(r), set()).add(str(d.name))
    pairs = set()
    for names in regs.values():
        for a in names:
            for b in names:
                if a < b:
                    pairs.add((a, b))
    prog['alias'] = sorted([list(p) for p in pairs])
    stats['facts_attached'] += nfacts + len(pairs)
    return nfacts


LIBCHUNKS = 4


def record_programs(job):
    seed, tier, k = job
    rng = random.Random(seed * 733 + k)
    work = tempfile.mkdtemp(prefix='verif-c13-')
    out, stats = [], Counter()
    try:
        progs = []
        if k == 0:
            hf, rej = gen_prog.load_programs(HAND, work, 'c13hand')
            for n, e in rej.items():
                stats[f'hand-rejected:{n}:{e[:80]}'] += 1
            progs += [(n, f, HAND[n]) for n, f in hf.items()]
        vecfn = {}
        if k >= 100:
            # the repository's own libraries (chunk k - 100 of LIBCHUNKS), with input vectors that follow the annotations
            from .. import libprogs
            for i, (n, f) in enumerate(libprogs.library_functions()):
                if i % LIBCHUNKS == k - 100 and (tier != 'quick' or (i // LIBCHUNKS + seed) % 3 == 0):
                    progs.append(('lib_' + n, f, f'# fpy2.libraries.{n}\n' + f.format()))
                    vecfn['lib_' + n] = (lambda r, m, f=f: libprogs.typed_vectors(f, r, m))
        else:
            nprog = 8 if tier == 'quick' else 50
            prof = PROFILES[k % len(PROFILES)]
            srcs, funcs, rej = progrun.generate_and_load(seed * 37 + k, nprog, prof, work, f'c13_{k}_')
            stats['rejected_by_front_end'] += len(rej)
            progs += [(n, f, srcs[n]) for n, f in funcs.items()]
        for (name, f, src) in progs:
            try:
                prog, pe = export_program(f, 0)
            except (Unsupported, OutOfDomain):
                stats['unsupported'] += 1
                continue
            if len(prog['funcs']) > 1:
                stats['has-calls'] += 1
                continue
            from ..equiv import apply_transform
            st, msg = apply_transform(lambda: annotate(prog, pe, f, stats), limit=30)
            if st == 'timeout':
                stats['analysis-timeout'] += 1
                out.append({'timeout': True, 'src': src, 'name': name})
                continue
            if st != 'ok':
                stats[f'analysis-refused:{str(msg).split(":")[0]}'] += 1
                continue
            ins = []
            for args, ctx in vecfn.get(name, progrun.input_vectors)(rng, 20 if tier == 'quick' else 48):
                # a constructor argument of 2**53 + 1 makes GNU MP abort the whole process: keep wide integers out of this check
                args = [(7 if a == 2 ** 53 + 1 else a) if not isinstance(a, list) else [(7 if e == 2 ** 53 + 1 else e) for e in a] for a in args]
                try:
                    aj = [value_json(a) for a in args]
                except (OutOfDomain, Unsupported):
                    continue
                o = progrun.run_real(f, args, ctx)
                if 'ood' in o:
                    continue
                from ..export import ctx_json
                ins.append({'args': aj, 'ctx': [] if ctx is None else [ctx_json(ctx)], 'out': o})
            prog['inputs'] = ins
            prog['src'] = src
            prog['name'] = name
            out.append(prog)
    finally:
        shutil.rmtree(work, ignore_errors=True)
    return out, stats


SUBNORMALS = [5e-324, 2.2250738585072009e-308, -5e-324, 1e-310]


def record_traces(job):
    """Statement-level traces of the REAL interpreter (harness/linetrace.py) for hand-written, generated and library programs -- also
    those the abstract machine cannot run (calls, isnormal, binary64 arithmetic, wide values)."""
    from .. import libprogs, linetrace
    from ..equiv import apply_transform
    seed, tier, k = job
    rng = random.Random(seed * 911 + k)
    work = tempfile.mkdtemp(prefix='verif-c13t-')
    progs, runs, stats = [], [], Counter()
    try:
        cand = []
        if k == 0:
            allhand = dict(HAND)
            allhand.update(TRACE_HAND)
            hf, rej = gen_prog.load_programs(allhand, work, 'c13thand')
            for n, e in rej.items():
                stats[f'hand-rejected:{n}:{e[:80]}'] += 1
            cand += [(n, f, allhand[n], progrun.input_vectors) for n, f in hf.items()]
        if k >= 100:
            for i, (n, f) in enumerate(libprogs.library_functions()):
                if i % LIBCHUNKS == k - 100:
                    cand.append(('lib_' + n, f, f'# fpy2.libraries.{n}\n' + f.format(), (lambda r, m, f=f: libprogs.typed_vectors(f, r, m))))
        else:
            nprog = 8 if tier == 'quick' else 40
            prof = dict(PROFILES[k % len(PROFILES)])
            if k % 2:
                prof['calls'] = 0.15
            srcs, funcs, rej = progrun.generate_and_load(seed * 41 + k, nprog, prof, work, f'c13t_{k}_')
            stats['rejected_by_front_end'] += len(rej)
            cand += [(n, f, srcs[n], progrun.input_vectors) for n, f in funcs.items()]
        for (name, f, src, vecfn) in cand:
            st, si = apply_transform(lambda: linetrace.static_info(f), limit=30)
            if st == 'timeout':
                stats['analysis-timeout'] += 1
                progs.append({'timeout': True, 'src': src, 'name': name})
                continue
            if st != 'ok':
                stats[f'not-traced:{str(si).split(":")[0]}'] += 1
                continue
            si['src'] = src
            kl = set(si['lines'])
            wl = {l for l, r_ in si['lines'].items() if r_['k'] == 'with'}
            nrun = 0
            for j, (args, ctx) in enumerate(vecfn(rng, 12 if tier == 'quick' else 30)):
                args = [(7 if a == 2 ** 53 + 1 else a) if not isinstance(a, list) else [(7 if e == 2 ** 53 + 1 else e) for e in a] for a in args]
                if j % 5 == 4 and not name.startswith('lib_'):
                    args[j % 2] = rng.choice(SUBNORMALS)
                r = linetrace.record_run(f, args, ctx, known_lines=kl, with_lines=wl)
                if r is None:
                    stats['run-too-long'] += 1
                    continue
                runs.append({'prog': len(progs), 'ev': r['ev'], 'ret': r['ret'], 'exc': r['exc'], 'mut': r['mut'], 'cx0': r['cx0'], 'args': repr(args)[:300], 'ctx': str(ctx)[:80]})
                nrun += 1
            stats['facts_attached_traced'] += si['nfacts']
            progs.append(si)
    finally:
        shutil.rmtree(work, ignore_errors=True)
    return progs, runs, stats


CTX_CLAUSES = ('active-context-is-not-that-of-the-enclosing-scope', 'with-target-is-not-the-active-context')


FACT_CLAUSES = ('read-observes-a-definition-not-listed-as-reaching', 'value-does-not-have-the-inferred-type',
                'list-does-not-have-the-inferred-length', 'lists-reported-equal-length-differ', 'value-outside-the-reported-classes',
                'expression-reported-constant-evaluates-differently', 'same-list-not-reported-as-aliased')


def run(tier: str) -> int:
    rep = core.Report('C13', tier)
    stats = Counter()
    jobs = [(core.seed(), tier, k) for k in range(4 if tier == 'quick' else 12)] + [(core.seed(), tier, 100 + c) for c in range(LIBCHUNKS)]
    res = core.pool_map(record_programs, jobs, chunksize=1)
    progs = []
    for ps, st in res:
        stats.update(st)
        for p in ps:
            if p.get('timeout'):
                rep.mismatch({'clause': 'analysis-does-not-terminate'}, {'program': p['src'], 'clause': 'an analysis ran for more than 30 s'})
                continue
            p['pid'] = len(progs)
            progs.append(p)
    mm, skips, gen, dis = progrun.run_machine(progs, cfg='FactMachine', module='FactMachine')
    rep.add_tlc(gen, dis)
    byp = {p['pid']: p for p in progs}
    facts = [m for m in mm if m[2] in FACT_CLAUSES]
    rest, skips = progrun.split_big(byp, [m for m in mm if m[2] not in FACT_CLAUSES], skips)
    SIZE = ('lists-reported-equal-length-differ', 'list-does-not-have-the-inferred-length')
    for (pid, idx, clause, what) in facts + rest:
        p = byp[pid]
        if clause in SIZE and 'err' in p['inputs'][idx - 1]['out']:
            # sizes are unified from the preconditions of later operations (zip of unequal lists is undefined and raises):
            # a size fact is a statement about the executions that complete
            stats['size-fact-on-a-failing-run'] += 1
            continue
        rep.mismatch({'clause': clause}, {'program': p['src'], 'input': p['inputs'][idx - 1], 'clause': clause, 'where': what,
                                          'alias': p.get('alias')})
    # --- statement-level traces of the real interpreter against the same facts (spec/StmtTrace.tla)
    from .. import linetrace
    tjobs = [(core.seed(), tier, k) for k in range(3 if tier == 'quick' else 9)] + [(core.seed(), tier, 100 + c) for c in range(LIBCHUNKS)]
    tprogs, truns, tstats = [], [], Counter()
    for ps, rs, st in core.pool_map(record_traces, tjobs, chunksize=1):
        base = len(tprogs)
        tstats.update(st)
        for p in ps:
            if p.get('timeout'):
                rep.mismatch({'clause': 'analysis-does-not-terminate'}, {'program': p['src'], 'clause': 'an analysis ran for more than 30 s'})
        tprogs += ps
        for r_ in rs:
            r_['pid'] = base + r_.pop('prog') + 1
            r_['tid'] = len(truns)
            truns.append(r_)
    if truns:
        tout = linetrace.validate([{k: r_[k] for k in ('tid', 'pid', 'ev', 'ret', 'exc', 'mut', 'cx0')} for r_ in truns], tprogs)
        rep.add_tlc(tout.generated, tout.distinct)
        for (tid, clause, what) in tout.mismatches:
            if clause in CTX_CLAUSES:
                continue        # the context discipline of the run itself is C04's matter (same traces, reported there)
            r_ = truns[tid]
            p = tprogs[r_['pid'] - 1]
            rep.mismatch({'clause': clause}, {'program': p['src'], 'args': r_['args'], 'ctx': r_['ctx'], 'clause': clause, 'where': what,
                                              'observed_by': 'statement trace of the real interpreter (sys.settrace)', 'alias': p.get('alias')})
    runs = sum(len(p['inputs']) for p in progs)
    skipc = Counter(s[3] for s in skips)
    rep.cov.update({'programs': len(progs), 'evaluations': runs, 'traces_validated_against_impl': runs - sum(skipc.values()),
                    'distinct_nontrivial': len(progs), 'facts_attached': stats.get('facts_attached', 0),
                    'skipped_by_reason': dict(skipc), 'not_run': {k: v for k, v in stats.items() if k != 'facts_attached'},
                    'statement_traces': len(truns), 'statement_trace_events': sum(len(r_['ev']) for r_ in truns),
                    'statement_trace_programs': sum(1 for p in tprogs if 'lines' in p), 'statement_trace_stats': dict(tstats),
                    'rule': 'hand + generated programs (no user calls) x 20 (quick) / 48 (thorough) argument vectors x caller contexts; facts of '
                            'six analyses attached to every assignment / statement of the main function and checked on every machine step'})
    for p in progs[:2]:
        rep.sample({'program': p['src'], 'alias': p.get('alias'), 'first_block': p['funcs'][p['main']]['blocks'][0][:3]})
    return rep.finish()


def replay(path: str) -> int:
    import json
    print(json.dumps(json.loads(open(path).read()), indent=1)[:4000])
    return 0
