"""
C11 -- Compiled C++ agrees bit for bit with the interpreter.

Programs built only from operations a C++ toolchain rounds correctly (+ - * / sqrt fma abs neg min max, comparisons; float and
double contexts under the four hardware rounding modes, integer-valued loops, tuples, lists handed to helpers that write to
them) are generated as source text, compiled by the real CppCompiler under several option sets (optimize, unboxing mode, static
arrays), built with g++ together with a driver (the repository's own tests/infra/backend/cpp.py emits it) and executed.  TLC
judges every run twice: spec/Agree.tla decides that the compiled result agrees bit for bit with the interpreter's (mode V over
recorded pairs, wide numbers as tokens), and, where the values stay inside the abstract machine's domain, MCMachine!Judge
compares the compiled result with the machine's run of the real AST.
"""
from __future__ import annotations

import math
import random
import shutil
import struct
import subprocess
import sys
import tempfile
from collections import Counter
from pathlib import Path

import fpy2 as fp

from .. import core, gen_prog, progrun
from ..export import OutOfDomain, ctx_json
from ..export_prog import Unsupported, export_program, value_json

CTXS = ['fp.FP64', 'fp.IEEEContext(11, 64, fp.RM.RTZ)', 'fp.IEEEContext(11, 64, fp.RM.RTP)', 'fp.IEEEContext(11, 64, fp.RM.RTN)']
CTXS32 = ['fp.FP32', 'fp.IEEEContext(8, 32, fp.RM.RTZ)', 'fp.IEEEContext(8, 32, fp.RM.RTP)', 'fp.IEEEContext(8, 32, fp.RM.RTN)']
# literals a binary format holds exactly (the backend refuses 0.1)
CONSTS = ['0.375', '3', '1.5', '2', '0.5', '5', '0.25', '1', '7', '0.75']

HELPERS = '''@fp.fpy
def bump(zs: list[fp.Real], a: fp.Real) -> fp.Real:
    with fp.FP64:
        zs[0] = zs[0] + a
        return zs[0] * a

@fp.fpy
def scale(zs: list[fp.Real], a: fp.Real) -> list[fp.Real]:
    with fp.FP64:
        return [z * a for z in zs]

@fp.fpy
def dot(us: list[fp.Real], vs: list[fp.Real]) -> fp.Real:
    with fp.FP64:
        acc = 0
        for u, v in zip(us, vs):
            acc = acc + u * v
        return acc

'''


class G11:
    def __init__(self, rng):
        self.r = rng
        self.nv = 0
        self.vars = ['x', 'y']
        self.lists = ['xs']

    def atom(self):
        r = self.r
        k = r.random()
        if k < 0.25:
            return r.choice(CONSTS)
        if k < 0.35:
            return f'{r.choice(self.lists)}[{r.randrange(2)}]'
        return r.choice(self.vars)

    def expr(self, d=0):
        r = self.r
        k = r.random()
        if d >= 2 or k < 0.25:
            return self.atom()
        if k < 0.72:
            return f'({self.expr(d + 1)} {r.choice(["+", "-", "*", "/"])} {self.expr(d + 1)})'
        if k < 0.78:
            return f'fp.sqrt(abs({self.expr(d + 1)}))'
        if k < 0.83:
            return f'(-{self.expr(d + 1)})'
        if k < 0.88:
            return f'fp.fma({self.atom()}, {self.atom()}, {self.atom()})'
        if k < 0.91:
            return f'{r.choice(["min", "max"])}({self.expr(d + 1)}, {self.expr(d + 1)})'
        if k < 0.93:
            return f'{r.choice(["min", "max"])}({r.choice(CONSTS)}, {self.atom()}, {self.atom()})'
        if k < 0.96:
            return f'len({r.choice(self.lists)})'
        return f'({self.expr(d + 1)} if {self.atom()} < {self.atom()} else {self.expr(d + 1)})'

    def new(self, p='v'):
        self.nv += 1
        return f'{p}{self.nv}'

    def stmts(self, depth, ind, n):
        out = []
        for _ in range(n):
            out += self.stmt(depth, ind)
        return out

    def stmt(self, depth, ind):
        r = self.r
        pad = '    ' * ind
        k = r.random()
        if depth >= 2 or k < 0.36:
            if r.random() < 0.5 and len(self.vars) > 2:
                return [f'{pad}{r.choice(self.vars[2:])} = {self.expr()}']
            t = self.new()
            line = f'{pad}{t} = {self.expr()}'
            self.vars.append(t)
            return [line]
        if k < 0.46:
            return [f'{pad}with {r.choice(CTXS)}:'] + self.stmts(depth + 1, ind + 1, r.randint(1, 3))
        if k < 0.5:
            # single precision: operands are rounded in explicitly, the result is a new variable
            a, b, t = self.new('a'), self.new('b'), self.new()
            v1, v2 = r.choice(self.vars), r.choice(self.vars)
            op1, op2 = r.choice(['+', '-', '*', '/']), r.choice(['+', '-', '*'])
            self.vars.append(t)
            return [f'{pad}with {r.choice(CTXS32)}:', f'{pad}    {a} = fp.round({v1})', f'{pad}    {b} = fp.round({v2})',
                    f'{pad}    {t} = ({a} {op1} {b}) {op2} {a}']
        if k < 0.6:
            t = r.choice(self.vars)
            return [f'{pad}if {self.atom()} {r.choice(["<", ">", "<=", ">=", "=="])} {self.atom()}:', f'{pad}    {t} = {self.expr()}',
                    f'{pad}else:', f'{pad}    {t} = {self.expr()}']
        if k < 0.68:
            t = r.choice(self.vars)
            e = self.new('e')
            return [f'{pad}for {e} in {r.choice(self.lists)}:', f'{pad}    {t} = {t} * {e} + {self.atom()}']
        if k < 0.74:
            t = r.choice(self.vars)
            i = self.new('i')
            return [f'{pad}for {i} in range({r.randint(1, 4)}):', f'{pad}    {t} = {self.expr()} + {i}']
        if k < 0.8:
            i = self.new('k')
            t = r.choice(self.vars)
            return [f'{pad}{i} = 0', f'{pad}while {i} < {r.randint(1, 3)}:', f'{pad}    {t} = {self.expr()}', f'{pad}    {i} = {i} + 1']
        if k < 0.86:
            l = self.new('l')
            src = r.choice(self.lists)
            line = r.choice([f'{pad}{l} = [{self.atom()} * e_ for e_ in {src}]', f'{pad}{l} = [{self.expr(1)}, {self.expr(1)}]',
                             f'{pad}{l} = scale({src}, {r.choice(self.vars)})', f'{pad}{l} = {src}'])
            self.lists.append(l)
            return [line]
        if k < 0.92:
            l = r.choice(self.lists)
            return [f'{pad}{l}[{r.randrange(2)}] = {self.expr(1)}']
        if k < 0.96:
            t = self.new()
            self.vars.append(t)
            return [f'{pad}{t} = bump({r.choice(self.lists)}, {r.choice(self.vars)})']
        t = self.new()
        self.vars.append(t)
        a, b = r.choice(self.lists), r.choice(self.lists)
        return [f'{pad}{t} = dot({a}, {a})']

    def program(self, name):
        r = self.r
        ctx = r.choice(CTXS)
        inner = self.stmts(0, 2, r.randint(2, 6))
        rets = [self.expr(1) for _ in range(r.randint(1, 3))]
        if r.random() < 0.4:
            rets.append(r.choice(self.lists))
        ret = rets[0] if len(rets) == 1 else '(' + ', '.join(rets) + ')'
        return HELPERS + '\n'.join(['@fp.fpy', f'def {name}(x: fp.Real, y: fp.Real, xs: list[fp.Real]):', f'    with {ctx}:'] + inner
                                   + [f'        return {ret}'])


HAND11 = {
    'hand_minmax3': '''@fp.fpy
def hand_minmax3(x: fp.Real, y: fp.Real, xs: list[fp.Real]):
    with fp.FP64:
        a = min(1, x, y)
        b = max(-1, x, y)
        c = min(x, y, xs[0])
        d = max(2.5, xs[0], xs[1], x)
        if x != 0:
            e = min(x, y, xs[1])
        else:
            e = max(x, xs[0], y)
        return (a, b, c, d, e)''',
    'hand_nested3': '''@fp.fpy
def hand_nested3(x: fp.Real, y: fp.Real, xs: list[fp.Real]):
    with fp.FP64:
        ys = [x, y]
        zs = [y, x]
        m = [[xs, zs], [zs, xs]]
        row = m[0][1]
        m[0][1] = ys
        a = row[0] * 100 + m[0][1][0]
        keep = m[1][0]
        m[1][0] = xs
        keep[1] = x + y
        return (a, row, keep, m[1][0][0], zs)''',
    'hand_target_shadow': '''@fp.fpy
def hand_target_shadow(x: fp.Real, y: fp.Real, xs: list[fp.Real]):
    with fp.FP64:
        acc = y
        for x in xs:
            acc = acc + x
        z = y
        for y in xs:
            pass
        return (acc + x * z, x, y)''',
    'hand_countdown': '''@fp.fpy
def hand_countdown(x: fp.Real, y: fp.Real, xs: list[fp.Real]):
    with fp.FP64:
        acc = x
        for i in range(3, 0, -1):
            acc = acc * 2 + i
        for j in range(0, 5, 2):
            acc = acc + j * y
        for e in range(2, -3, -2):
            acc = acc - e
        return acc''',
    'hand_early_ifexpr': '''@fp.fpy
def hand_early_ifexpr(x: fp.Real, y: fp.Real, xs: list[fp.Real]):
    with fp.IEEEContext(11, 64, fp.RM.RTN):
        t = x - y
        with fp.IEEEContext(11, 64, fp.RM.RTP):
            if t < 1:
                return x if (y / 3) * 3 > y else 0 - x
        return t if (x / 3) * 3 < x else y''',
    'hand_helper_twice': '''@fp.fpy
def sc3(v: fp.Real, up: bool) -> fp.Real:
    return v * 3 if up else v / 3

@fp.fpy
def hand_helper_twice(x: fp.Real, y: fp.Real, xs: list[fp.Real]):
    with fp.FP32:
        a32 = fp.round(x)
    with fp.FP64:
        u = sc3(a32, x > 0)
        v = sc3(y / 3, x > 0)
        w = sc3(y * 1e300, y > 0)
        return (u, v, w)''',
    'hand_while_temp': '''@fp.fpy
def hand_while_temp(x: fp.Real, y: fp.Real, xs: list[fp.Real]):
    with fp.FP64:
        i = x
        while min(i * 2, y) < 10 and i < 100:
            i = i + 1
        return i''',
    'hand_guarded_reduction': '''@fp.fpy
def hand_guarded_reduction(x: fp.Real, y: fp.Real, xs: list[fp.Real]):
    with fp.FP64:
        ys = xs[2:len(xs)]
        m = max(ys) if len(ys) > 0 else x
        ok = len(ys) > 0 and min(ys) > y
        return (m, ok, len(ys))''',
    'hand_long_countdown': '''@fp.fpy
def hand_long_countdown(x: fp.Real, y: fp.Real, xs: list[fp.Real]):
    with fp.FP64:
        best = 0
        for i in range(300, 0, -1):
            if x * i >= 250:
                best = i
        low = 0
        for j in range(-300, 20):
            if y * j > 200:
                low = j
        return (best, low)''',
    'hand_alias_rebound': '''@fp.fpy
def hand_alias_rebound(x: fp.Real, y: fp.Real, xs: list[fp.Real]):
    with fp.FP64:
        cur = xs
        old = cur
        if x > 0:
            cur = [x, y]
        prev = old
        for e in xs:
            if e > y:
                old = [e, e, e]
        return (old[0] + cur[0], len(prev), len(old), prev[1])''',
    'hand_alias_write': '''@fp.fpy
def hand_alias_write(x: fp.Real, y: fp.Real, xs: list[fp.Real]):
    with fp.FP64:
        ys = xs
        t = bump(ys, x)
        rows = [xs, [x, y]]
        r = rows[0]
        r[1] = t
        u = bump(rows[1], y)
        return (xs, ys, t, u, rows[1])''',
}

POOL = [0.0, -0.0, 1.0, -1.0, 2.5, -3.0, 0.5, -0.25, 0.1, 100.0, 1e-10, 5e-324, float('inf'), float('-inf'), float('nan'), 1.5, 7.0, 0.3]


def parse_like(like, toks, pos):
    if isinstance(like, bool):
        t = toks[pos[0]]
        pos[0] += 1
        return bool(int(t))
    if isinstance(like, list):
        n = int(toks[pos[0]])
        pos[0] += 1
        proto = like[0] if like else 0.0
        return [parse_like(proto, toks, pos) for _ in range(n)]
    if isinstance(like, tuple):
        return tuple(parse_like(e, toks, pos) for e in like)
    t = toks[pos[0]].lower()
    pos[0] += 1
    if 'nan' in t:
        return math.nan
    if 'inf' in t:
        return -math.inf if t.startswith('-') else math.inf
    return float.fromhex(t)


def to_py(v):
    """interpreter result -> plain Python (floats, as the driver prints doubles)"""
    if isinstance(v, bool):
        return v
    if isinstance(v, (list,)):
        return [to_py(x) for x in v]
    if isinstance(v, tuple):
        return tuple(to_py(x) for x in v)
    return float(v)


class ieee_rtn_zero:
    """Runs the real interpreter with ONE documented deviation: an exactly cancelled sum under roundTowardNegative is -0 (IEEE 754 6.3),
    as the hardware the compiled code runs on makes it.  Used only to attribute a disagreement to the known finding."""

    def __enter__(self):
        from fpy2.number.engine.gmp import MPFREngine
        from fpy2.number.round import RoundingMode
        from fpy2.number import Float
        self.cls = MPFREngine
        self.saved = {n: getattr(MPFREngine, n) for n in ('add', 'sub', 'fma')}

        def fix(r, ctx, pos_zero):
            if (r is not None and getattr(ctx, 'rm', None) is RoundingMode.RTN and r.is_zero() and not r.s and not r.inexact and not pos_zero):
                return Float(s=True, ctx=r.ctx)
            return r

        def pz(v):
            return v.is_zero() and not v.s
        sv = self.saved

        def add(self_, x, y, ctx):
            r = sv['add'](self_, x, y, ctx)
            return fix(r, ctx, pz(x) and pz(y)) if r is not None else r

        def sub(self_, x, y, ctx):
            r = sv['sub'](self_, x, y, ctx)
            return fix(r, ctx, pz(x) and y.is_zero() and y.s) if r is not None else r

        def fma(self_, x, y, z, ctx):
            r = sv['fma'](self_, x, y, z, ctx)
            return fix(r, ctx, (x.is_zero() or y.is_zero()) and x.s == y.s and pz(z)) if r is not None else r
        MPFREngine.add, MPFREngine.sub, MPFREngine.fma = add, sub, fma
        return self

    def __exit__(self, *a):
        for n, f in self.saved.items():
            setattr(self.cls, n, f)


def options(tier):
    U = fp.CppCompiler.UnboxMode
    base = [dict(optimize=True, unbox=U.ALLOW, arrays=True), dict(optimize=False, unbox=U.NEVER, arrays=True),
            dict(optimize=True, unbox=U.NEVER, arrays=False), dict(optimize=False, unbox=U.ALLOW, arrays=False),
            dict(optimize=True, unbox=U.STRICT, arrays=True)]
    return base if tier == 'thorough' else base[:3]


def record(job):
    seed, tier, k = job
    sys.path.insert(0, str(core.REPO))
    import tests.infra.backend.cpp as infra
    from fpy2.types import ListType, RealType
    rng = random.Random(seed * 2003 + k)
    work = tempfile.mkdtemp(prefix='verif-c11-')
    pairs, mprogs, stats = [], [], Counter()
    try:
        nprog = 4 if tier == 'quick' else 16
        srcs = {}
        if k == 0:
            srcs.update({n: HELPERS + t for n, t in HAND11.items()})
        for i in range(nprog):
            name = f'c11_{k}_{i}'
            srcs[name] = G11(rng).program(name)
        funcs, rej = gen_prog.load_programs(srcs, work, f'c11_{seed}_{k}')
        stats['rejected_by_front_end'] += len(rej)
        arg_types = [RealType(fp.FP64), RealType(fp.FP64), ListType(RealType(fp.FP64))]
        for name, f in funcs.items():
            src = srcs[name]
            samples = []
            special = [0.0, -0.0, 1.0, -1.0, float('nan'), float('inf'), 2.5]
            grid = [[a, b, [c, d]] for a in special for b in special for (c, d) in ((0.0, -0.0), (-0.0, 0.0), (3.0, float('nan')), (-1.0, 0.5))]
            nsamp = len(grid) if name in HAND11 else (16 if tier == 'quick' else 40)
            for i in range(nsamp):
                L = [2, 3, 2, 4][i % 4]
                args = [rng.choice(POOL), rng.choice(POOL), [rng.choice(POOL[:12] if rng.random() < 0.8 else POOL) for _ in range(L)]]
                if name in HAND11:
                    args = [grid[i][0], grid[i][1], list(grid[i][2])]      # every combination of signed zeros, NaN, infinity
                o = progrun.run_real(f, [args[0], args[1], list(args[2])], fp.FP64)
                if 'err' in o or 'ood' in o:
                    stats['interpreter-did-not-return'] += 1
                    continue
                try:
                    exp = to_py(f(args[0], args[1], list(args[2]), ctx=fp.FP64))
                except Exception:       # noqa: BLE001
                    continue
                exp2 = None
                if 'RTN' in src:
                    try:
                        with ieee_rtn_zero():
                            exp2 = to_py(f(args[0], args[1], list(args[2]), ctx=fp.FP64))
                    except Exception:       # noqa: BLE001
                        exp2 = None
                samples.append((args, exp, o, exp2))
            if not samples:
                continue
            try:
                mprog, _ = export_program(f, 0)
            except (Unsupported, OutOfDomain):
                mprog = None
            for oi, opt in enumerate(options(tier)):
                comp = fp.CppCompiler(unsafe_cast_int=True, **opt)
                try:
                    cpp = infra._emit_driver(Path(work), 'c11', comp, f, arg_types, [(a, e) for a, e, _, _ in samples], suffix=f'_{oi}')
                except Exception as e:      # noqa: BLE001  -- the backend refuses the program under these options
                    stats[f'backend-refused:{type(e).__name__}'] += 1
                    continue
                exe = cpp.with_suffix('.exe')
                b = subprocess.run(['g++', '-std=c++17', '-O0', '-frounding-math', '-o', str(exe), str(cpp)], capture_output=True, text=True)
                if b.returncode != 0:
                    pairs.append({'a': {'val': {'k': 'bool', 'b': True}}, 'b': {'err': 'does-not-compile'}, 'src': src, 'opt': str(opt),
                                  'detail': b.stderr[-600:], 'name': name})
                    continue
                try:
                    r = subprocess.run([str(exe)], capture_output=True, text=True, timeout=90)
                    lines = r.stdout.splitlines()
                    rc = r.returncode
                except subprocess.TimeoutExpired:
                    lines, rc = [], -9
                ins = []
                for si, (args, exp, o, exp2) in enumerate(samples):
                    if rc != 0 or si >= len(lines):
                        bj = {'err': f'driver-exit-{rc}'}
                    else:
                        try:
                            got = parse_like(exp, lines[si].split(), [0])
                            bj = {'val': value_json(got)}
                        except Exception as e:      # noqa: BLE001
                            bj = {'err': f'unparsable:{type(e).__name__}'}
                    try:
                        aj = {'val': value_json(exp)}
                    except (OutOfDomain, Unsupported):
                        continue
                    rec = {'a': aj, 'b': bj, 'src': src, 'opt': str(opt), 'args': repr(args), 'name': name}
                    if exp2 is not None:
                        try:
                            rec['a2'] = {'val': value_json(exp2)}
                        except (OutOfDomain, Unsupported):
                            pass
                    pairs.append(rec)
                    if mprog is not None:
                        try:
                            ins.append({'args': [value_json(a) for a in args], 'ctx': [ctx_json(fp.FP64)], 'out': bj})
                        except (OutOfDomain, Unsupported):
                            pass
                if mprog is not None and ins:
                    p = dict(mprog)
                    p['inputs'] = ins
                    p['src'] = src
                    p['opt'] = str(opt)
                    mprogs.append(p)
                exe.unlink(missing_ok=True)
    finally:
        shutil.rmtree(work, ignore_errors=True)
    return pairs, mprogs, stats


def run(tier: str) -> int:
    rep = core.Report('C11', tier)
    stats = Counter()
    jobs = [(core.seed(), tier, k) for k in range(4 if tier == 'quick' else 10)]
    res = core.pool_map(record, jobs, chunksize=1)
    pairs, mprogs = [], []
    for ps, ms, st in res:
        pairs += ps
        stats.update(st)
        for m in ms:
            m['pid'] = len(mprogs)
            mprogs.append(m)
    if not pairs:
        print('MACHINERY: no compiled run was recorded: ' + str(dict(stats)))
        return 2
    for i, r in enumerate(pairs):
        r['tid'] = i
    out = core.validate_trace('Agree', [{'tid': r['tid'], 'a': r['a'], 'b': r['b']} for r in pairs], cfg='Agree')
    rep.add_tlc(out.generated, out.distinct)
    by = {r['tid']: r for r in pairs}
    def zero_sign_only(a, b):
        if isinstance(a, dict) and isinstance(b, dict):
            if a.get('k') == 'fin' and b.get('k') == 'fin' and a.get('n') == 0 and b.get('n') == 0:
                return True
            if a.get('k') == 'inf' and b.get('k') == 'inf':
                return True
            return a.keys() == b.keys() and all(zero_sign_only(a[k], b[k]) for k in a)
        if isinstance(a, list) and isinstance(b, list):
            return len(a) == len(b) and all(zero_sign_only(x, y) for x, y in zip(a, b))
        return a == b
    for mm in out.mismatches:
        r = by[mm[0]]
        key = {'clause': mm[1]}
        # (a signed zero shows in the sign of an infinity one division later)
        if mm[1] == 'compiled-result-differs' and 'RTN' in r['src'] and (zero_sign_only(r['a'], r['b']) or r.get('a2') == r['b']):
            key['shape'] = 'sign-of-an-exactly-cancelled-sum-under-RTN'
        rep.mismatch(key, {k: r.get(k) for k in ('src', 'opt', 'args', 'a', 'b', 'detail')} | {'clause': mm[1]})
    send = [{k: v for k, v in p.items() if k not in ('opt',)} for p in mprogs]
    mm, skips, gen, dis = progrun.run_machine(send)
    rep.add_tlc(gen, dis)
    byp = {p['pid']: p for p in mprogs}
    mm, skips = progrun.split_big(byp, mm, skips)
    for (pid, idx, clause, merr) in mm:
        p = byp[pid]
        if 'RTN' in p['src'] and clause in ('value', 'missing-error', 'code-raised'):
            # the machine fixes the sign of an exactly cancelled sum under RTN one way, the code (interpreter and compiled alike here)
            # another on some paths: the property leaves it open, and one division later it is the sign of an infinity
            stats['machine-judgement-skipped-under-RTN'] += 1
            continue
        rep.mismatch({'clause': 'machine-' + clause}, {'src': p['src'], 'opt': p['opt'], 'input': p['inputs'][idx - 1], 'clause': clause,
                                                       'machine_error': merr})
    mruns = sum(len(p['inputs']) for p in mprogs)
    skipc = Counter(s[3] for s in skips)
    rep.cov.update({'programs': len({r['name'] for r in pairs}), 'evaluations': len(pairs), 'traces_validated_against_impl': len(pairs),
                    'distinct_nontrivial': len({(r['name'], r['opt']) for r in pairs}),
                    'runs_also_judged_against_the_machine': mruns - sum(skipc.values()), 'machine_skips': dict(skipc), 'not_run': dict(stats),
                    'rule': 'generated programs (float / double contexts x 4 hardware rounding modes, loops, branches, tuples, lists handed to helpers that '
                            'write to them) x option sets (optimize, unbox NEVER / ALLOW / STRICT, static arrays) x argument vectors incl. zeros, a '
                            'subnormal, infinities and NaN; built with g++ -O0 (as the repository\'s own infrastructure does: GCC moves floating-point code across fesetround when it optimises)'})
    for r in pairs[:: max(1, len(pairs) // 3)][:3]:
        rep.sample({k: r.get(k) for k in ('src', 'opt', 'args', 'a', 'b')})
    return rep.finish()


def replay(path: str) -> int:
    import json
    print(json.dumps(json.loads(open(path).read()), indent=1)[:4000])
    return 0
