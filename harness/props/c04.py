"""
C04 -- Programs evaluate by the documented context-scoped semantics.

Generated programs (source text -> real @fpy front end -> real AST -> export) are run by TLC on
the abstract machine spec/FPyMachine.tla for every recorded input vector and caller context;
the machine's outcome is compared with what the real interpreter returned (MCMachine!Judge).
The machine's own invariants (context discipline of `with`, store growth) are checked in every
state of every run.
"""
from __future__ import annotations

import random
import shutil
import tempfile
from collections import Counter

from .. import core, progrun

PROFILES = [
    None,
    {'with': 0.4, 'early_return': 0.3, 'loops': 0.15},
    {'lists': 0.4, 'loops': 0.3, 'calls': 0.05},
    {'calls': 0.3, 'with': 0.3, 'lists': 0.2},
]


# Hand-written programs for the parts of the language reference the generator does not reach: ranges that count down, fp.empty
# with one to three dimensions, enumerate / zip, slices, rows shared by reading them out of a list, tuple fields, while loops,
# early returns from nested loops, nested with-blocks.  Signature as the generated programs: (x, y, xs, k), k in 1..4.
HAND = {
    'h4_countdown': """@fp.fpy
def h4_countdown(x: fp.Real, y: fp.Real, xs: list[fp.Real], k: fp.Real):
    acc = x
    for i in range(k, 0, -1):
        acc = acc * 2 + i
    return acc, range(k + 2, 0, -2), range(0, k, -1), range(k, k, -1), range(k, -k, -3)""",
    'h4_horner': """@fp.fpy
def h4_horner(x: fp.Real, y: fp.Real, xs: list[fp.Real], k: fp.Real):
    acc = 0
    for i in range(len(xs) - 1, -1, -1):
        with fp.MPFloatContext(6):
            acc = acc * y + xs[i]
    return acc""",
    'h4_reverse': """@fp.fpy
def h4_reverse(x: fp.Real, y: fp.Real, xs: list[fp.Real], k: fp.Real):
    n = len(xs)
    out = fp.empty(n)
    for i in range(n - 1, -1, -1):
        out[n - 1 - i] = xs[i]
    return out, [xs[j] for j in range(n - 1, -1, -2)]""",
    'h4_range_steps': """@fp.fpy
def h4_range_steps(x: fp.Real, y: fp.Real, xs: list[fp.Real], k: fp.Real):
    return range(1, 7, k), range(7, 1, -k), range(-3, 3, k), range(3, -3, -k), range(k, 1), range(0 - k)""",
    'h4_empty1': """@fp.fpy
def h4_empty1(x: fp.Real, y: fp.Real, xs: list[fp.Real], k: fp.Real):
    a = fp.empty(k)
    b = a
    for i in range(k):
        a[i] = x + i
    return a, b, len(b)""",
    'h4_empty2': """@fp.fpy
def h4_empty2(x: fp.Real, y: fp.Real, xs: list[fp.Real], k: fp.Real):
    a = fp.empty(k, 2)
    for i in range(k):
        for j in range(2):
            a[i][j] = i * 2 + j
    r = a[0]
    r[1] = y
    return a, r""",
    'h4_empty3': """@fp.fpy
def h4_empty3(x: fp.Real, y: fp.Real, xs: list[fp.Real], k: fp.Real):
    a = fp.empty(2, k, 2)
    for i in range(2):
        for j in range(k):
            for l in range(2):
                a[i][j][l] = (i * k + j) * 2 + l
    return a""",
    'h4_empty3_one_write': """@fp.fpy
def h4_empty3_one_write(x: fp.Real, y: fp.Real, xs: list[fp.Real], k: fp.Real):
    a = fp.empty(3, 2, 2)
    for i in range(3):
        for j in range(2):
            for l in range(2):
                a[i][j][l] = 0
    a[1][0][1] = x
    a[2][1][0] = y
    return a, a[0][0][1], a[0][1][0]""",
    'h4_empty_bad': """@fp.fpy
def h4_empty_bad(x: fp.Real, y: fp.Real, xs: list[fp.Real], k: fp.Real):
    a = fp.empty(k - 2)
    return a, len(a)""",
    'h4_empty_unwritten': """@fp.fpy
def h4_empty_unwritten(x: fp.Real, y: fp.Real, xs: list[fp.Real], k: fp.Real):
    a = fp.empty(k)
    a[0] = x
    t = a[k - 1]
    return a, t""",
    'h4_empty_read': """@fp.fpy
def h4_empty_read(x: fp.Real, y: fp.Real, xs: list[fp.Real], k: fp.Real):
    a = fp.empty(k)
    a[0] = x
    return a[k - 1] + 1""",
    'h4_rows_shared': """@fp.fpy
def h4_rows_shared(x: fp.Real, y: fp.Real, xs: list[fp.Real], k: fp.Real):
    row = [x, y]
    m = [row, row, [x, y]]
    m[0][0] = k
    n = [r for r in m]
    n[2][1] = 7
    return m, n, row""",
    'h4_enumerate_zip': """@fp.fpy
def h4_enumerate_zip(x: fp.Real, y: fp.Real, xs: list[fp.Real], k: fp.Real):
    acc = 0
    for i, e in enumerate(xs):
        acc = acc + i * e
    ys = [e + 1 for e in xs]
    ps = [a * b for a, b in zip(xs, ys)]
    return acc, ps, enumerate(ys)""",
    'h4_slices': """@fp.fpy
def h4_slices(x: fp.Real, y: fp.Real, xs: list[fp.Real], k: fp.Real):
    a = xs[:k]
    b = xs[k:]
    a[0] = x
    return a, b, xs, xs[1:k]""",
    'h4_while_break': """@fp.fpy
def h4_while_break(x: fp.Real, y: fp.Real, xs: list[fp.Real], k: fp.Real):
    i = 0
    t = x
    while i < k:
        with fp.MPFloatContext(4):
            t = t / 3 + y
        if t > 2:
            return t, i
        i = i + 1
    return t, 0 - 1""",
    'h4_nested_return': """@fp.fpy
def h4_nested_return(x: fp.Real, y: fp.Real, xs: list[fp.Real], k: fp.Real):
    for i in range(k):
        for e in xs:
            if e > i + 1:
                return e, i
    return x, k""",
    'h4_nested_with': """@fp.fpy
def h4_nested_with(x: fp.Real, y: fp.Real, xs: list[fp.Real], k: fp.Real):
    with fp.MPFloatContext(8):
        a = x / 3
        with fp.MPFloatContext(3):
            b = a + y / 3
            with fp.REAL:
                c = a * b
        d = c / 3
    return a, b, c, d, d / 3""",
    'h4_tuple_fields': """@fp.fpy
def h4_tuple_fields(x: fp.Real, y: fp.Real, xs: list[fp.Real], k: fp.Real):
    t = (xs, [x, y])
    u, v = t
    v[0] = k
    _, w = t
    w[1] = 9
    return t, u, v""",
}


def build(tier: str, seed: int, workdir: str, nprog: int, nvec: int, profiles=PROFILES, tag='c4'):
    rng = random.Random(seed * 7919 + 13)
    progs, stats = [], Counter()
    per = max(1, nprog // len(profiles))
    pid = 0
    for k, prof in enumerate(profiles):
        srcs, funcs, rej = progrun.generate_and_load(seed * 31 + k, per, prof, workdir, f'{tag}_{k}_')
        stats['rejected_by_front_end'] += len(rej)
        for name, fn in funcs.items():
            vec = progrun.input_vectors(rng, nvec)
            p = progrun.record_program(fn, pid, vec, srcs[name])
            if isinstance(p, tuple):
                stats[p[0]] += 1
                continue
            pid += 1
            progs.append(p)
    if tag == 'c4':
        from .. import gen_prog
        funcs, rej = gen_prog.load_programs(HAND, workdir, 'c4hand')
        if rej:
            raise core.MachineryError(f'a hand-written C04 program is rejected by the front end: {rej}')
        for name, fn in funcs.items():
            vec = progrun.input_vectors(rng, nvec * 2)
            p = progrun.record_program(fn, pid, vec, HAND[name])
            if isinstance(p, tuple):
                raise core.MachineryError(f'hand-written C04 program {name} cannot be exported: {p}')
            stats['hand_written'] += 1
            pid += 1
            progs.append(p)
        # the repository's own libraries: real programs, typed input vectors
        from .. import libprogs
        for name, fn in libprogs.library_functions():
            vec = libprogs.typed_vectors(fn, rng, nvec * 2)
            p = progrun.record_program(fn, pid, vec, f'# fpy2.libraries.{name}\n' + fn.format())
            if isinstance(p, tuple):
                stats['library-' + p[0]] += 1
                continue
            stats['library_functions'] += 1
            pid += 1
            progs.append(p)
    return progs, stats


def judge(rep: core.Report, progs, mm, skips, prop: str):
    by = {p['pid']: p for p in progs}
    for (pid, idx, clause, merr) in mm:
        p = by[pid]
        i = p['inputs'][idx - 1]
        key = {'clause': clause, 'machine': merr}
        rep.mismatch(key, {'pid': pid, 'src': p.get('src', ''), 'input': i, 'clause': clause, 'machine_error': merr})
    return Counter(s[3] for s in skips)


def run(tier: str) -> int:
    rep = core.Report('C04', tier)
    nprog, nvec = (64, 10) if tier == 'quick' else (600, 20)
    work = tempfile.mkdtemp(prefix='verif-c04-')
    try:
        progs, stats = build(tier, core.seed(), work, nprog, nvec)
        mm, skips, gen, dis = progrun.run_machine(progs)
        mm, skips = progrun.split_big({p['pid']: p for p in progs}, mm, skips)
    finally:
        shutil.rmtree(work, ignore_errors=True)
    rep.add_tlc(gen, dis)
    # --- the context discipline observed on the REAL interpreter: statement traces (harness/linetrace.py) replayed by
    # spec/StmtTrace.tla, which keeps the stack of enclosing `with` blocks and compares it with the compiled code's active context
    from .. import linetrace
    from . import c13
    tjobs = [(core.seed(), tier, k) for k in range(2 if tier == 'quick' else 6)] + [(core.seed(), tier, 100 + c) for c in range(c13.LIBCHUNKS)]
    tprogs, truns = [], []
    for ps, rs, _ in core.pool_map(c13.record_traces, tjobs, chunksize=1):
        base = len(tprogs)
        tprogs += ps
        for r_ in rs:
            r_['pid'] = base + r_.pop('prog') + 1
            r_['tid'] = len(truns)
            truns.append(r_)
    if truns:
        tout = linetrace.validate([{k: r_[k] for k in ('tid', 'pid', 'ev', 'ret', 'exc', 'mut', 'cx0')} for r_ in truns], tprogs)
        rep.add_tlc(tout.generated, tout.distinct)
        for (tid, clause, what) in tout.mismatches:
            if clause not in c13.CTX_CLAUSES:
                continue        # facts of the static analyses: C13
            r_ = truns[tid]
            rep.mismatch({'clause': clause}, {'src': tprogs[r_['pid'] - 1]['src'], 'args': r_['args'], 'ctx': r_['ctx'], 'clause': clause,
                                              'where': what, 'observed_by': 'statement trace of the real interpreter (sys.settrace)'})
    if truns:
        st = linetrace.tamper_selftest(truns, tprogs)
        if st is not None:
            clauses, typed = st
            if 'active-context-is-not-that-of-the-enclosing-scope' not in clauses or (typed and 'value-does-not-have-the-inferred-type' not in clauses):
                raise core.MachineryError(f'spec/StmtTrace.tla accepted a tampered trace (reported only {clauses})')
            rep.cov['tampered_traces_rejected'] = clauses
    rep.cov['statement_traces'] = len(truns)
    rep.cov['statement_trace_events'] = sum(len(r_['ev']) for r_ in truns)
    rep.cov['with_blocks_entered_on_traces'] = sum(1 for r_ in truns for a, b in zip(r_['ev'], r_['ev'][1:])
                                                  if tprogs[r_['pid'] - 1]['lines'].get(a['l'], {}).get('k') == 'with'
                                                  and str(tprogs[r_['pid'] - 1]['lines'][a['l']]['b0']) == b['l'])
    runs = sum(len(p['inputs']) for p in progs)
    skipc = judge(rep, progs, mm, skips, 'C04')
    both_return = sum(1 for p in progs for i in p['inputs'] if 'val' in i['out']) - sum(skipc.values())
    rep.cov.update({
        'programs': len(progs), 'evaluations': runs, 'traces_validated_against_impl': runs - sum(skipc.values()),
        'distinct_nontrivial': sum(1 for p in progs if 'with ' in p.get('src', '') and ('for ' in p['src'] or 'if ' in p['src'])),
        'runs_where_both_return_a_value': max(0, both_return),
        'skipped_by_reason': dict(skipc), 'generation': dict(stats),
        'rule': 'seeded program generator (4 profiles) x input vectors (specials, non-representable values, lists of length 0-4) '
                'x caller contexts {none, REAL, 3-bit float, fixed, 6-bit IEEE}; non-trivial = program has a with-block and a branch or loop',
    })
    for p in progs[:2]:
        rep.sample({'src': p['src'], 'input': p['inputs'][0] if p['inputs'] else None})
    rep.assumptions = ['machine values stay below 2^15 in numerator/denominator (else the run is skipped as OutOfDomain)',
                       'binary64 as the default context is modelled only on exactly representable results']
    return rep.finish()


def replay(path: str) -> int:
    import json
    data = json.loads(open(path).read())
    print(json.dumps(data, indent=1)[:3000])
    return 0
