"""
C04 -- Programs evaluate by the documented context-scoped semantics.

Generated programs (source text -> real @fpy front end -> real AST -> export) are run by TLC on
the abstract machine spec/FPyMachine.tla for every recorded input vector and caller context;
the machine's outcome is compared with what the real interpreter returned (MCMachine!Judge).
The machine's own invariants (context discipline of `with`, store growth) are checked in every
state of every run.
"""
from __future__ import annotations

import random
import shutil
import tempfile
from collections import Counter

from .. import core, progrun

PROFILES = [
    None,
    {'with': 0.4, 'early_return': 0.3, 'loops': 0.15},
    {'lists': 0.4, 'loops': 0.3, 'calls': 0.05},
    {'calls': 0.3, 'with': 0.3, 'lists': 0.2},
]


def build(tier: str, seed: int, workdir: str, nprog: int, nvec: int, profiles=PROFILES, tag='c4'):
    rng = random.Random(seed * 7919 + 13)
    progs, stats = [], Counter()
    per = max(1, nprog // len(profiles))
    pid = 0
    for k, prof in enumerate(profiles):
        srcs, funcs, rej = progrun.generate_and_load(seed * 31 + k, per, prof, workdir, f'{tag}_{k}_')
        stats['rejected_by_front_end'] += len(rej)
        for name, fn in funcs.items():
            vec = progrun.input_vectors(rng, nvec)
            p = progrun.record_program(fn, pid, vec, srcs[name])
            if isinstance(p, tuple):
                stats[p[0]] += 1
                continue
            pid += 1
            progs.append(p)
    return progs, stats


def judge(rep: core.Report, progs, mm, skips, prop: str):
    by = {p['pid']: p for p in progs}
    for (pid, idx, clause, merr) in mm:
        p = by[pid]
        i = p['inputs'][idx - 1]
        key = {'clause': clause, 'machine': merr}
        rep.mismatch(key, {'pid': pid, 'src': p.get('src', ''), 'input': i, 'clause': clause, 'machine_error': merr})
    return Counter(s[3] for s in skips)


def run(tier: str) -> int:
    rep = core.Report('C04', tier)
    nprog, nvec = (64, 10) if tier == 'quick' else (600, 20)
    work = tempfile.mkdtemp(prefix='verif-c04-')
    try:
        progs, stats = build(tier, core.seed(), work, nprog, nvec)
        mm, skips, gen, dis = progrun.run_machine(progs)
        mm, skips = progrun.split_big({p['pid']: p for p in progs}, mm, skips)
    finally:
        shutil.rmtree(work, ignore_errors=True)
    rep.add_tlc(gen, dis)
    runs = sum(len(p['inputs']) for p in progs)
    skipc = judge(rep, progs, mm, skips, 'C04')
    both_return = sum(1 for p in progs for i in p['inputs'] if 'val' in i['out']) - sum(skipc.values())
    rep.cov.update({
        'programs': len(progs), 'evaluations': runs, 'traces_validated_against_impl': runs - sum(skipc.values()),
        'distinct_nontrivial': sum(1 for p in progs if 'with ' in p.get('src', '') and ('for ' in p['src'] or 'if ' in p['src'])),
        'runs_where_both_return_a_value': max(0, both_return),
        'skipped_by_reason': dict(skipc), 'generation': dict(stats),
        'rule': 'seeded program generator (4 profiles) x input vectors (specials, non-representable values, lists of length 0-4) '
                'x caller contexts {none, REAL, 3-bit float, fixed, 6-bit IEEE}; non-trivial = program has a with-block and a branch or loop',
    })
    for p in progs[:2]:
        rep.sample({'src': p['src'], 'input': p['inputs'][0] if p['inputs'] else None})
    rep.assumptions = ['machine values stay below 2^15 in numerator/denominator (else the run is skipped as OutOfDomain)',
                       'binary64 as the default context is modelled only on exactly representable results']
    return rep.finish()


def replay(path: str) -> int:
    import json
    data = json.loads(open(path).read())
    print(json.dumps(data, indent=1)[:3000])
    return 0
