"""
C06 -- A numeric literal denotes exactly the number written.

Spellings (every string of <= 5 characters over {0,1,9,.,e,-,+}, plus seeded long ones: 20-40 digits, exponents up to
+-400, integers above 2^53 written with an exponent or a trailing .0, hexadecimal-float strings, negated zeros) become
one-line functions `return <literal>` built from text; the real front end parses them and the real interpreter evaluates
them under REAL.  TLC runs the lexer state machine of spec/Literal.tla over the characters and compares the decimal
(binary) normal form with the normal form of the returned value; it also checks the lexer accepts exactly what Python's
grammar accepts.  rational(p, q), digits(m, e, b) and fp.round(<literal>) under narrow contexts are judged too.
"""
from __future__ import annotations

import ast
import itertools
import random
import shutil
import tempfile
from collections import Counter
from fractions import Fraction

import fpy2 as fp
from fpy2.number import Float

from .. import core, gen_prog
from ..export import OutOfDomain, ctx_json, num_json


def py_accepts(s: str) -> bool:
    """Is `s` (optionally signed) a Python int/float literal?"""
    body = s[1:] if s[:1] in '+-' else s
    if not body or body[0] in '+-':
        return False
    try:
        t = ast.parse(body, mode='eval').body
    except SyntaxError:
        return False
    return isinstance(t, ast.Constant) and isinstance(t.value, (int, float)) and not isinstance(t.value, bool) \
        and 'j' not in body.lower() and '_' not in body and not body.lower().startswith(('0x', '0o', '0b'))


def dec_normal(q: Fraction, negzero: bool):
    """Decimal normal form of a finite-decimal rational (pure re-encoding)."""
    if q == 0:
        return {'neg': 1 if negzero else 0, 'D': [], 'E': 0}
    n, d = abs(q.numerator), q.denominator
    k = 0
    while d % 2 == 0 or d % 5 == 0:
        if d % 10 == 0:
            d //= 10
        elif d % 2 == 0:
            d //= 2
            n *= 5
        else:
            d //= 5
            n *= 2
        k += 1
    if d != 1:
        return None
    digs = [int(c) for c in str(n)]
    e = -k
    while digs and digs[-1] == 0:
        digs.pop()
        e += 1
    return {'neg': 1 if q < 0 else 0, 'D': digs, 'E': e}


def bin_normal(q: Fraction, negzero: bool):
    if q == 0:
        return {'neg': 1 if negzero else 0, 'D': [], 'E': 0}
    n, d = abs(q.numerator), q.denominator
    if d & (d - 1):
        return None
    e = -(d.bit_length() - 1)
    while n % 2 == 0:
        n //= 2
        e += 1
    return {'neg': 1 if q < 0 else 0, 'D': [int(c) for c in bin(n)[2:]], 'E': e}


def evaluate(fn, norm):
    try:
        r = fn(ctx=fp.REAL)
    except Exception as e:      # noqa: BLE001
        return {'err': type(e).__name__}
    if isinstance(r, Float):
        if r.is_nar():
            return {'err': 'NotFinite'}
        q, nz = r.as_rational(), (r.is_zero() and r.s)
    else:
        q, nz = Fraction(r), False
    nf = norm(q, nz)
    return nf if nf is not None else {'err': 'NotInRadix'}


def spellings(tier: str, rng: random.Random):
    out = []
    alpha = '019.e-+'
    maxlen = 4 if tier == 'quick' else 5
    for n in range(1, maxlen + 1):
        for t in itertools.product(alpha, repeat=n):
            out.append(('dec', ''.join(t)))
    longn = 150 if tier == 'quick' else 3000
    for _ in range(longn):
        nd = rng.randint(17, 40)
        digs = ''.join(rng.choice('0123456789') for _ in range(nd))
        pt = rng.randint(0, nd)
        mant = (digs[:pt] + '.' + digs[pt:]) if rng.random() < 0.7 else digs.lstrip('0') or '0'
        if mant.startswith('.') and rng.random() < 0.5:
            mant = '0' + mant
        exp = ''
        if rng.random() < 0.6:
            exp = rng.choice('eE') + rng.choice(['', '+', '-']) + str(rng.choice([0, 1, 7, 23, 40, 308, 400]))
        out.append(('dec', rng.choice(['', '', '-']) + mant + exp))
    out += [('dec', s) for s in ('1e23', '9007199254740993.0', '9007199254740993e0', '18014398509481985.', '-0.0', '-0e5',
                                 '0.1000000000000000055511151231257827', '1e400', '1e-400', '123456789012345678901234567890',
                                 '0.30000000000000004', '5e-324', '2.5e-324', '1.7976931348623157e308', '1.7976931348623159e308')]
    hexn = 60 if tier == 'quick' else 800
    for _ in range(hexn):
        nd = rng.randint(1, 14)
        digs = ''.join(rng.choice('0123456789abcdef') for _ in range(nd))
        pt = rng.randint(0, nd)
        mant = (digs[:pt] + '.' + digs[pt:]) if rng.random() < 0.7 and 0 < pt < nd else digs
        exp = 'p' + rng.choice(['', '+', '-']) + str(rng.choice([0, 1, 4, 52, 100, 1100])) if rng.random() < 0.7 else ''
        out.append(('hex', rng.choice(['', '-']) + '0x' + mant + exp))
    # zeros, signed: a spelling with a zero significand denotes a zero of the sign written
    out += [('hex', s) for s in ('-0x0p0', '0x0p0', '-0x0.000p-3', '-0x0p+5', '0x0.0p-1100', '-0x00p1', '-0x0', '-0x1p-1100', '0x0.8p1')]
    return out


def record(job):
    lo, hi, tier, seed = job
    rng = random.Random(seed)
    sp = spellings(tier, rng)[lo:hi]
    work = tempfile.mkdtemp(prefix='verif-c06-')
    recs = []
    try:
        for j, (kind, s) in enumerate(sp):
            name = f'lit{lo + j}'
            ok = py_accepts(s) if kind == 'dec' else True
            rec = {'kind': kind, 'py_ok': ok, 'spelling': s}
            low = s.lower()
            if kind == 'hex':
                body = low.replace('0x', '', 1)
                rec['sp'] = list(body)
            else:
                rec['sp'] = list(low)
            if ok:
                lit = s if kind == 'dec' else f"fp.hexfloat('{s}')"
                text = f'@fp.fpy\ndef {name}():\n    return {lit}'
                funcs, rej = gen_prog.load_programs({name: text}, work, f'c06_{lo}_{j}')
                if name in funcs:
                    rec['out'] = evaluate(funcs[name], dec_normal if kind == 'dec' else bin_normal)
                else:
                    rec['out'] = {'err': 'Rejected:' + rej[name][:60]}
            else:
                rec['out'] = {'err': 'n/a'}
            recs.append(rec)
    finally:
        shutil.rmtree(work, ignore_errors=True)
    return recs


def record_misc(tier):
    """rational / digits / fp.round(<literal>) under narrow contexts."""
    work = tempfile.mkdtemp(prefix='verif-c06m-')
    recs = []
    try:
        cases = []
        for p, q in ((1, 3), (-7, 5), (22, 7), (0, 9), (5, 1), (-3, 8), (1000, 3), (-1, -3), (-6, -4), (4, -6), (6, -4), (0, -5), (-9, 3)):
            cases.append((f'fp.rational({p}, {q})', Fraction(p, q)))
        for m, e, b in ((3, 2, 10), (-5, -1, 10), (7, 3, 2), (1, -4, 2), (9, 1, 16), (-11, -2, 4), (0, 5, 10),
                        # negative exponents in bases that are not powers of two: no double holds the result
                        (1, -1, 10), (-3, -2, 10), (7, -3, 10), (1, -2, 3), (5, -1, 6), (-2, -3, 5), (123, -4, 10)):
            cases.append((f'fp.digits({m}, {e}, {b})', Fraction(m) * Fraction(b) ** e))
        # negation written on a literal: the sign of a zero counts (1 / -(-0.0) is +inf)
        negz = {}
        for lit, q, nz in (('-(-0.0)', 0, False), ('- -0.0', 0, False), ('-(-0)', 0, False), ('-(-(-0.0))', 0, True), ('-(0.0)', 0, True),
                           ('-(-1.5)', Fraction(3, 2), False), ('-(-(-2))', -2, False), ('+(-0.0)', 0, True), ('-(+0.0)', 0, True)):
            cases.append((lit, Fraction(q)))
            negz[lit] = nz
        for i, (lit, q) in enumerate(cases):
            name = f'misc{i}'
            funcs, rej = gen_prog.load_programs({name: f'@fp.fpy\ndef {name}():\n    return {lit}'}, work, f'c06m_{i}')
            try:
                r = funcs[name](ctx=fp.REAL)
                out = {'val': num_json(r)}
            except Exception as e:      # noqa: BLE001
                out = {'err': type(e).__name__}
            recs.append({'kind': 'ratio', 'sp': [], 'py_ok': True, 'spelling': lit,
                         'exp': {'s': 1 if (q < 0 or negz.get(lit)) else 0, 'n': abs(q.numerator), 'd': q.denominator}, 'out': out})
        ctxs = [fp.MPFloatContext(2), fp.MPFloatContext(3, fp.RM.RTZ), fp.MPFixedContext(-2, fp.RM.RAZ), fp.IEEEContext(3, 6, fp.RM.RTN),
                fp.MPSFloatContext(3, -1, fp.RM.RNA)]
        lits = ['0.1', '0.3', '1.1', '2.5', '0.375', '7.75', '1e1', '12.5e-1', '0.0625', '3', '1e2', '-0.3', '.7', '5e-1']
        for i, lit in enumerate(lits):
            name = f'rnd{i}'
            funcs, rej = gen_prog.load_programs({name: f'@fp.fpy\ndef {name}():\n    return fp.round({lit})'}, work, f'c06r_{i}')
            q = Fraction(lit)
            for c in ctxs:
                try:
                    out = {'val': num_json(funcs[name](ctx=c))}
                except OutOfDomain:
                    continue
                except Exception as e:      # noqa: BLE001
                    out = {'err': type(e).__name__}
                recs.append({'kind': 'round', 'sp': [], 'py_ok': True, 'spelling': lit, 'ctx': ctx_json(c),
                             'x': num_json(q), 'out': out})
    finally:
        shutil.rmtree(work, ignore_errors=True)
    return recs


def run(tier: str) -> int:
    rep = core.Report('C06', tier)
    rng = random.Random(core.seed())
    n = len(spellings(tier, rng))
    step = 400
    jobs = [(i, min(n, i + step), tier, core.seed()) for i in range(0, n, step)]
    recs = [r for rs in core.pool_map(record, jobs, chunksize=1) for r in rs]
    recs += record_misc(tier)
    for i, r in enumerate(recs):
        r['tid'] = i
    out = core.validate_trace('Literal', recs, cfg='Literal')
    rep.add_tlc(out.generated, out.distinct)
    by = {r['tid']: r for r in recs}
    for mm in out.mismatches:
        r = by[mm[0]]
        key = {'clause': mm[1], 'kind': r['kind']}
        if mm[1] in ('value', 'front-end-raises', 'zero-sign') and r['kind'] == 'dec':
            # how the spelling relates to a double (the shape of known finding F5)
            try:
                exact = Fraction(r['spelling'])
                fl = float(r['spelling'])
                key['spelling_is_a_double'] = fl == fl and abs(fl) != float('inf') and Fraction(fl) == exact
            except (ValueError, OverflowError):
                key['spelling_is_a_double'] = False
        rep.mismatch(key, {k: v for k, v in r.items() if k != 'sp'})
    acc = [r for r in recs if r['py_ok']]
    rep.cov.update({'evaluations': len(recs), 'traces_validated_against_impl': len(acc),
                    'distinct_nontrivial': len({r['spelling'] for r in acc if len(r['spelling']) > 2}),
                    'accepted_spellings': len(acc), 'rejected_spellings': len(recs) - len(acc),
                    'rule': 'every string of <= 4 (quick) / 5 (thorough) characters over {0,1,9,.,e,-,+}; seeded long decimals '
                            '(17-40 digits, exponents to +-400); hexadecimal-float strings; rational/digits; fp.round(literal) under narrow contexts'})
    for r in acc[:: max(1, len(acc) // 5)][:5]:
        rep.sample({k: v for k, v in r.items() if k != 'sp'})
    return rep.finish()


def replay(path: str) -> int:
    return core.replay_saved('C06', 'Literal', path)
