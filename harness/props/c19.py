"""
C19 -- Sites, indices and cursors name exactly what they say.

Generated programs in which every statement carries a unique literal marker; for each aimable strategy and
parameters and every where in {None, -1, 0..k-1, k}: the real sites, refusals, outcome, edit log, both program
trees (markers per statement) and what the real Function.forward answers for EVERY statement cursor of the old
program are recorded and judged by spec/Cursor.tla (ApplyVerdict): index discipline, only-the-named-site,
sites + refusals = considered, real forward = transcription of EditLog.forward, forwarded cursors land on
descendants (or raise), untouched statements unchanged.  Chains of strategies forward cursors across several logs.

Design level: spec/MCCursor.tla (every <=2 disjoint edits of a block x every cursor: Forward lands on a descendant).
"""
from __future__ import annotations

import random
import shutil
import tempfile
from collections import Counter

import fpy2 as fp
from fpy2.ast import fpyast as A
from fpy2.strategies import StmtCursor, TransformReferenceError
from fpy2.transform.for_unroll import ForUnrollStrategy
from fpy2.transform.path import FuncBody, StmtPath, SubBlock, walk_stmts
from fpy2.transform.split_loop import SplitLoopStrategy

from .. import core, gen_prog

FIELDS = {'body': 1, 'ift': 2, 'iff': 3}


def enc_block(bp) -> list:
    if isinstance(bp, FuncBody):
        return []
    return enc_stmt(bp.parent) + [FIELDS[bp.field]]


def enc_stmt(p: StmtPath) -> list:
    return enc_block(p.parent) + [p.index]


def markers(node, own: bool) -> list:
    """integer literals >= 1000 in the statement's own expressions (own) or anywhere in it"""
    out = []

    def walk(n, top):
        if isinstance(n, A.Integer) and n.val >= 1000:
            out.append(int(n.val))
        if isinstance(n, A.StmtBlock):
            if own and not top:
                return
            for s in n.stmts:
                walk(s, False)
            return
        if isinstance(n, A.Ast):
            for cls in type(n).__mro__:
                for f in getattr(cls, '__slots__', ()):
                    if f in ('loc', 'fn', 'func', 'meta'):
                        continue
                    v = getattr(n, f, None)
                    if isinstance(v, A.StmtBlock):
                        if not own:
                            walk(v, True)
                    elif isinstance(v, (A.Ast,)):
                        walk(v, False)
                    elif isinstance(v, (tuple, list)):
                        for x in v:
                            if isinstance(x, tuple):
                                for y in x:
                                    walk(y, False)
                            else:
                                walk(x, False)
    walk(node, True)
    return sorted(set(out))


def tree(func_ast) -> list:
    def sig(s):
        t = getattr(s, 'target', None)
        return type(s).__name__ + (':' + str(t) if isinstance(s, A.Assign) else '')
    return [{'p': enc_stmt(p), 'own': markers(s, True), 'all': markers(s, False), 'sig': sig(s)} for p, s in walk_stmts(func_ast)]


class Gen:
    def __init__(self, rng):
        self.r = rng
        self.m = 1000
        self.v = 0

    def mark(self):
        self.m += 1
        return self.m

    def var(self):
        self.v += 1
        return f'v{self.v}'

    def block(self, depth, ind, n):
        out = []
        for _ in range(n):
            out += self.stmt(depth, ind)
        return out

    def stmt(self, depth, ind):
        r = self.r
        pad = '    ' * ind
        k = r.random()
        if depth >= 2 or k < 0.35:
            return [f'{pad}x = x + {self.mark()}']
        if k < 0.6:
            e = self.var()
            return [f'{pad}for {e} in xs:', f'{pad}    x = x + {e} * {self.mark()}'] + self.block(depth + 1, ind + 1, r.randint(0, 2))
        if k < 0.7:
            c = self.var()
            return ([f'{pad}{c} = 0', f'{pad}while {c} < 2:', f'{pad}    x = x + {self.mark()}']
                    + self.block(depth + 1, ind + 1, r.randint(0, 1)) + [f'{pad}    with fp.REAL:', f'{pad}        {c} = {c} + 1'])
        if k < 0.8:
            return [f'{pad}if x > {self.mark()}:'] + self.block(depth + 1, ind + 1, r.randint(1, 2)) + [f'{pad}else:'] + self.block(depth + 1, ind + 1, 1)
        if k < 0.92:
            v = self.var()
            return [f'{pad}with fp.IEEEContext(3, 6):', f'{pad}    {v} = fp.round(x)', f'{pad}x = {v} + {self.mark()}']
        return [f'{pad}for {self.var()} in range(4):', f'{pad}    x = x + {self.mark()}']

    def program(self, name):
        self.m, self.v = 1000, 0
        body = self.block(0, 1, self.r.randint(3, 6))
        return '\n'.join(['@fp.fpy', f'def {name}(x: fp.Real, xs: list[fp.Real]):'] + body + ['    return x'])


def configs():
    S = fp.strategies
    return [
        ('unroll_for', S.unroll_for, {}, lambda n: isinstance(n, A.ForStmt)),
        ('unroll_for[2]', S.unroll_for, {'times': 2}, lambda n: isinstance(n, A.ForStmt)),
        ('unroll_for[3,STRICT]', S.unroll_for, {'times': 3, 'strategy': ForUnrollStrategy.STRICT}, lambda n: isinstance(n, A.ForStmt)),
        ('unroll_while', S.unroll_while, {}, lambda n: isinstance(n, A.WhileStmt)),
        ('split[2]', S.split, {'factor': 2}, lambda n: isinstance(n, A.ForStmt)),
        ('split[3,STRICT]', S.split, {'factor': 3, 'strategy': SplitLoopStrategy.STRICT}, lambda n: isinstance(n, A.ForStmt)),
        ('unfold_special', S.unfold_special, {}, None),
        ('float_to_fixed', S.float_to_fixed, {}, None),
        ('unfold_overflow', S.unfold_overflow, {}, None),
        ('unfold_overflow[early]', S.unfold_overflow, {'early_check': True}, None),
        ('unfold_neg_zero', S.unfold_neg_zero, {}, None),
        ('rescale_fixed', S.rescale_fixed, {}, None),
        ('insert_round[FP64]', S.insert_round, {'ctx': fp.FP64}, None),
        ('insert_round[FP32]', S.insert_round, {'ctx': fp.FP32}, None),
    ]


# Hand-written programs for strategies whose sites need pinned argument formats (monomorphize first): exact operations under REAL in
# statement position, in a `for` iterable, in conditions and `with` headers.
HAND19 = {
    'hand_ir_for_iterable': '''@fp.fpy(ctx=fp.FP64)
def hand_ir_for_iterable(x: fp.Real, y: fp.Real) -> fp.Real:
    with fp.REAL:
        p = x * y
        acc = 0.0
        for v in [x * x, y]:
            acc = acc + v
        r = acc + p
    return r''',
    'hand_ir_mixed': '''@fp.fpy(ctx=fp.FP64)
def hand_ir_mixed(x: fp.Real, y: fp.Real) -> fp.Real:
    with fp.REAL:
        a = x * y
        if x * x > y:
            a = a + x * y
        for v in [x * y]:
            for w in [v * x, y * y]:
                a = a + w
        i = 0.0
        while i * x < y:
            i = i + x * x
        b = a * x
    return b + i''',
}


RULE_PROGS = {
    'hand_rule_exprs': '''@fp.fpy
def hand_rule_exprs(x: fp.Real, y: fp.Real, z: fp.Real):
    a = x * y + z
    b = a - 1
    if b > 0:
        c = (y * z + x) - (z * x + y)
    else:
        c = b
    for i in range(3):
        c = c * 2
        d = c * x + i
    return a + c''',
    'hand_rule_stmts': '''@fp.fpy
def hand_rule_stmts(x: fp.Real, y: fp.Real, z: fp.Real):
    y = x + 1
    t = y * 2
    if t > z:
        y = t + 1
        u = y
    else:
        u = z
    while u < 10:
        y = u + 1
        u = y * 2
    if u > 100:
        y = u + 1
    if y > 100:
        y = z + 1
    return u + y''',
    'hand_rule_none': '''@fp.fpy
def hand_rule_none(x: fp.Real, y: fp.Real, z: fp.Real):
    return x - y * z''',
}


def record_rules():
    """user rewrite rules (fpy2.rewrite) aimed by index, by cursor and at nothing"""
    from fpy2.rewrite import Rewrite, find_all

    @fp.pattern
    def fma_l(a, b, c):
        a * b + c

    @fp.pattern
    def fma_r(a, b, c):
        fp.fma(a, b, c)

    @fp.pattern
    def bump_l(a):
        y = a + 1

    @fp.pattern
    def bump_r(a):
        y = a + 3

    @fp.pattern
    def guard_l(c, a):
        if c:
            y = a + 1

    @fp.pattern
    def guard_r(c, a):
        if c:
            y = a + 3

    rules = {'fma': (Rewrite(fma_l, fma_r), fma_l), 'bump': (Rewrite(bump_l, bump_r), bump_l), 'guard': (Rewrite(guard_l, guard_r), guard_l)}
    work = tempfile.mkdtemp(prefix='verif-c19r-')
    recs = []
    try:
        funcs, rej = gen_prog.load_programs(RULE_PROGS, work, 'c19rules')
        if rej:
            raise core.MachineryError(f'a hand-written C19 program is rejected: {rej}')
        for name, f in funcs.items():
            for rname, (rule, lhs) in rules.items():
                try:
                    listed = find_all(lhs, f)
                except Exception as e:       # noqa: BLE001
                    recs.append({'kind': 'rule', 'prog': name, 'src': RULE_PROGS[name], 'config': 'rule:' + rname, 'where': -999,
                                 'outcome': type(e).__name__, 'k': -1, 'left': 0, 'cur': True})
                    continue
                k = len(listed)
                for where in [None, -1, -k, -k - 1, k, k + 1] + list(range(k)):
                    if where is not None and where == 0 and k == 0:
                        pass
                    try:
                        g = rule.apply(f, where)
                        outcome = 'ok'
                    except Exception as e:      # noqa: BLE001
                        g = None
                        outcome = type(e).__name__
                    left, cur = 0, True
                    if g is not None:
                        try:
                            left = len(find_all(lhs, g))
                        except Exception:       # noqa: BLE001
                            left = -1
                        if where is not None and 0 <= where < k:
                            try:
                                cur = rule.apply(f, listed[where]).format() == g.format()
                            except Exception:       # noqa: BLE001
                                cur = False
                    recs.append({'kind': 'rule', 'prog': name, 'src': RULE_PROGS[name], 'config': 'rule:' + rname,
                                 'where': -999 if where is None else where, 'outcome': outcome, 'k': k, 'left': left, 'cur': cur})
    finally:
        shutil.rmtree(work, ignore_errors=True)
    return recs


def fw_json(g, cur):
    try:
        r = g.forward(cur)
    except TransformReferenceError:
        return {'k': 'err'}
    if isinstance(r, StmtCursor):
        return {'k': 'stmt', 'p': enc_stmt(r.path)}
    return {'k': 'region', 'bp': enc_block(r.block_path), 'start': r.span.start, 'n': len(r.span)}


def apply(strategy, f, where, kw):
    kw2 = dict(kw)
    if 'factor' in kw2:
        fac = kw2.pop('factor')
        return strategy(f, fac, where, **kw2)
    return strategy(f, where=where, **kw2)


def record(job):
    seed, lo, hi = job
    work = tempfile.mkdtemp(prefix='verif-c19-')
    recs = []
    S = fp.strategies
    try:
        items = []
        if lo == 0:
            from fpy2.types import RealType
            hf, hrej = gen_prog.load_programs(HAND19, work, f'c19h_{seed}')
            if hrej:
                raise core.MachineryError(f'a hand-written C19 program is rejected: {hrej}')
            for n, f0 in hf.items():
                items.append((n, HAND19[n], S.monomorphize(f0, fp.FP64, [RealType(fp.FP32)] * 2)))
        for i in range(lo, hi):
            rng = random.Random(seed * 7907 + i)
            name = f'c19p{i}'
            text = Gen(rng).program(name)
            funcs, rej = gen_prog.load_programs({name: text}, work, f'c19_{seed}_{i}')
            if name not in funcs:
                continue
            items.append((name, text, funcs[name]))
        for (name, text, f) in items:
            old = tree(f.ast)
            for (cname, strat, kw, cand_pred) in configs():
                skw = {k: v for k, v in kw.items() if k != 'factor'}
                if 'factor' in kw:
                    skw['factor'] = kw['factor']
                try:
                    sites = S.sites(strat, f, **skw)
                except Exception as e:      # noqa: BLE001
                    continue
                try:
                    refused = [c for c, _ in S.refusals(strat, f, **skw)]
                except Exception:           # noqa: BLE001
                    refused = []
                exprsited = any(not isinstance(c, StmtCursor) for c in sites)
                if exprsited:
                    # sites are expressions (insert_round): each is accounted for by the statement that holds it; the sharper
                    # per-expression accounting is the inline section's (markers)
                    spaths = [enc_stmt(c.path.stmt() if hasattr(c.path, 'stmt') else c.path) for c in sites]
                    rpaths = []
                else:
                    spaths = [enc_stmt(c.path) for c in sites if isinstance(c, StmtCursor)]
                    rpaths = [enc_stmt(c.path) for c in refused if isinstance(c, StmtCursor)]
                if exprsited:
                    cand = list(spaths)
                elif cand_pred is not None:
                    cand = [enc_stmt(p) for p, s in walk_stmts(f.ast) if cand_pred(s)]
                else:
                    cand = spaths + rpaths
                k = len(spaths)
                for where in [None, -1] + list(range(k + 1)):
                    try:
                        g = apply(strat, f, where, kw)
                        outcome = 'ok'
                    except Exception as e:      # noqa: BLE001
                        g = None
                        outcome = type(e).__name__
                    edits, new, fw, changed, xr = [], [], [], False, []
                    cur = True
                    lone = where is not None and 0 <= where < k and not any(
                        q != spaths[where] and q[:len(spaths[where])] == spaths[where] for q in spaths)
                    if exprsited:
                        lone = where is not None and 0 <= where < k
                    if g is not None and lone:      # (a statement cursor takes every site at or beneath it: compared where that is one site)
                        # the same site named by its cursor instead of its index
                        try:
                            g2 = apply(strat, f, sites[where], kw)
                            cur = g2.format() == g.format()
                        except Exception:       # noqa: BLE001
                            cur = False
                    if g is not None:
                        log = g.edits
                        if log is None:
                            continue
                        edits = [{'bp': enc_block(e.block_path), 'index': e.index, 'removed': e.removed, 'inserted': e.inserted}
                                 for e in log.edits]
                        new = tree(g.ast)
                        xr = [enc_stmt(p) for p in log.exprs_rewritten]
                        changed = g.format() != f.format()
                        for p, s in walk_stmts(f.ast):
                            fw.append({'p': enc_stmt(p), 'r': fw_json(g, StmtCursor(f.ast, p))})
                    recs.append({'prog': name, 'src': text, 'config': cname, 'where': -999 if where is None else where,
                                 'outcome': outcome, 'changed': changed, 'sites': spaths, 'refused': rpaths, 'cand': cand,
                                 'edits': edits, 'old': old if g is not None else [], 'new': new, 'fw': fw, 'xr': xr, 'cur': cur})
            # strategies that are not aimed: the cursor half of the property (what the reported edits did not touch is unchanged,
            # a forwarded cursor names a descendant or raises)
            for (cname, strat) in (('lift_context', S.lift_context), ('simplify', S.simplify), ('elim_iter', S.elim_iter), ('fuse', S.fuse)):
                try:
                    g = strat(f)
                except Exception:       # noqa: BLE001
                    continue
                log = g.edits
                if log is None:
                    continue
                fw = [{'p': enc_stmt(p), 'r': fw_json(g, StmtCursor(f.ast, p))} for p, _ in walk_stmts(f.ast)]
                recs.append({'prog': name, 'src': text, 'config': cname, 'where': -999, 'outcome': 'ok', 'changed': g.format() != f.format(),
                             'sites': [], 'refused': [], 'cand': [],
                             'edits': [{'bp': enc_block(e.block_path), 'index': e.index, 'removed': e.removed, 'inserted': e.inserted}
                                       for e in log.edits],
                             'old': old, 'new': tree(g.ast), 'fw': fw, 'xr': [enc_stmt(p) for p in log.exprs_rewritten], 'cur': True})
            # `within`: the listing restricted to a statement is the part of the full listing at or beneath it
            for (cname, strat, kw, cand_pred) in configs()[:4]:
                skw = dict(kw)
                try:
                    full = [enc_stmt(c.path) for c in S.sites(strat, f, **skw) if isinstance(c, StmtCursor)]
                except Exception:       # noqa: BLE001
                    continue
                for p, st in walk_stmts(f.ast):
                    if len(enc_stmt(p)) != 1:
                        continue
                    try:
                        sub = [enc_stmt(c.path) for c in S.sites(strat, f, within=StmtCursor(f.ast, p), **skw) if isinstance(c, StmtCursor)]
                    except Exception as e:      # noqa: BLE001
                        sub = None
                    recs.append({'kind': 'within', 'prog': name, 'src': text, 'config': cname + ':within', 'where': -999, 'outcome': 'ok',
                                 'full': full, 'sub': sub if sub is not None else [], 'failed': sub is None, 'at': enc_stmt(p)})
            # chains: a cursor taken before two strategies and forwarded across both
            try:
                g1 = S.unroll_for(f, None, 1)
                g2 = S.unroll_while(g1, None, 1)
                chain = []
                for p, s in walk_stmts(f.ast):
                    a = fw_json(g2, StmtCursor(f.ast, p))
                    chain.append({'p': enc_stmt(p), 'r': a})
                # judged as forwarding through g1's log then g2's: recorded as two ApplyVerdict-style records is
                # not possible (the intermediate cursor may be a region); keep the end-to-end descendant check
                new2 = tree(g2.ast)
                recs.append({'prog': name, 'src': text, 'config': 'chain:unroll_for;unroll_while', 'where': -999, 'outcome': 'ok',
                             'changed': True, 'sites': [], 'refused': [], 'cand': [], 'edits': [], 'old': old, 'new': new2,
                             'fw': chain, 'chain': True, 'xr': []})
            except Exception:       # noqa: BLE001
                pass
    finally:
        shutil.rmtree(work, ignore_errors=True)
    return recs


HELPERS = '''@fp.fpy
def h1(a: fp.Real, m: fp.Real):
    return a + m

@fp.fpy
def h2(a: fp.Real, m: fp.Real):
    if a > m:
        return a
    return m

@fp.fpy
def hi(a: fp.Real, m: fp.Real):
    with fp.INTEGER:
        r = 0 * m
    return r

'''


class EGen(Gen):
    """programs whose call sites (candidates of `inline`) each carry a unique marker as last argument"""

    def call(self, depth=0):
        r = self.r
        a = 'x' if depth >= 1 or r.random() < 0.6 else self.call(depth + 1)
        return f'{r.choice(["h1", "h1", "h2"])}({a}, {self.mark()})'

    def stmt(self, depth, ind):
        r = self.r
        pad = '    ' * ind
        k = r.random()
        if depth >= 2 or k < 0.3:
            return [f'{pad}x = {self.call()}' + (f' + {self.call()}' if r.random() < 0.4 else '')]
        if k < 0.5:
            return [f'{pad}ys[hi(x, {self.mark()})] = {self.call()}']
        if k < 0.6:
            return [f'{pad}ys[hi(h1(x, {self.mark()}), {self.mark()})] = ys[hi(x, {self.mark()})] + {self.call()}']
        if k < 0.7:
            return [f'{pad}if {self.call()} > 3:'] + self.block(depth + 1, ind + 1, r.randint(1, 2)) + [f'{pad}else:'] + self.block(depth + 1, ind + 1, 1)
        if k < 0.78:
            c = self.var()
            return ([f'{pad}{c} = 0', f'{pad}while {c} < {self.call()}:'] + self.block(depth + 1, ind + 1, 1)
                    + [f'{pad}    with fp.REAL:', f'{pad}        {c} = {c} + 100000'])
        if k < 0.9:
            return [f'{pad}for {self.var()} in range(2):'] + self.block(depth + 1, ind + 1, r.randint(1, 2))
        return [f'{pad}with fp.IEEEContext(5, 16):'] + self.block(depth + 1, ind + 1, r.randint(1, 2))

    def program(self, name):
        self.m, self.v = 1000, 0
        body = self.block(0, 1, self.r.randint(2, 5))
        return HELPERS + '\n'.join(['@fp.fpy', f'def {name}(x: fp.Real, xs: list[fp.Real]):', '    ys = [x, x]'] + body
                                    + [f'    return {self.call()} + ys[0]'])


def call_marks(func_ast):
    """(path, marker) of every call to an FPy function, in walk order"""
    from fpy2.function import Function
    from fpy2.transform.path import walk_exprs
    out = []
    for p, e in walk_exprs(func_ast):
        if isinstance(e, A.Call) and isinstance(e.fn, Function) and e.args and isinstance(e.args[-1], A.Integer):
            out.append((p, int(e.args[-1].val)))
    return out


def mark_of(node) -> int:
    from fpy2.function import Function
    if isinstance(node, A.Call) and isinstance(node.fn, Function) and node.args and isinstance(node.args[-1], A.Integer):
        return int(node.args[-1].val)
    return 0


def record_expr(job):
    from fpy2.strategies import ExprCursor
    seed, lo, hi = job
    work = tempfile.mkdtemp(prefix='verif-c19e-')
    recs = []
    S = fp.strategies
    try:
        for i in range(lo, hi):
            rng = random.Random(seed * 6151 + i)
            name = f'c19e{i}'
            text = EGen(rng).program(name)
            funcs, rej = gen_prog.load_programs({name: text}, work, f'c19e_{seed}_{i}')
            if name not in funcs:
                continue
            f = funcs[name]
            old = tree(f.ast)
            cm = call_marks(f.ast)
            for (cname, kw) in (('inline', {}), ('inline[one-level]', {'recursive': False})):
                try:
                    sites = S.sites(S.inline, f)
                    refused = [c for c, _ in S.refusals(S.inline, f)]
                except Exception:       # noqa: BLE001
                    continue
                marks = [mark_of(c.resolve()) for c in sites]
                rmarks = [mark_of(c.resolve()) for c in refused]
                k = len(marks)
                for where in [None, -1] + list(range(k + 1)):
                    try:
                        g = S.inline(f, where, **kw)
                        outcome = 'ok'
                    except Exception as e:      # noqa: BLE001
                        g = None
                        outcome = type(e).__name__
                    gone, efw = [], []
                    if g is not None:
                        left = {m for _, m in call_marks(g.ast)}
                        gone = sorted(m for _, m in cm if m not in left)
                        for pth, m in cm:
                            try:
                                c2 = g.forward(ExprCursor(f.ast, pth))
                                efw.append({'m': m, 'r': mark_of(c2.resolve()) if isinstance(c2, ExprCursor) else -2})
                            except TransformReferenceError:
                                efw.append({'m': m, 'r': -1})
                    recs.append({'kind': 'expr', 'prog': name, 'src': text, 'config': cname, 'where': -999 if where is None else where,
                                 'outcome': outcome, 'marks': marks, 'rmarks': rmarks, 'cand': [m for _, m in cm], 'gone': gone,
                                 'efw': efw})
                    # the statement-level forwarding of the same application
                    if g is not None and g.edits is not None:
                        edits = [{'bp': enc_block(e.block_path), 'index': e.index, 'removed': e.removed, 'inserted': e.inserted}
                                 for e in g.edits.edits]
                        fw = [{'p': enc_stmt(p), 'r': fw_json(g, StmtCursor(f.ast, p))} for p, _ in walk_stmts(f.ast)]
                        recs.append({'prog': name, 'src': text, 'config': cname + ':stmts', 'where': -999, 'outcome': 'ok',
                                     'changed': True, 'sites': [], 'refused': [], 'cand': [], 'edits': edits, 'old': old,
                                     'new': tree(g.ast), 'fw': fw, 'xr': [enc_stmt(p) for p in g.edits.exprs_rewritten]})
    finally:
        shutil.rmtree(work, ignore_errors=True)
    return recs


def run(tier: str) -> int:
    rep = core.Report('C19', tier)
    mc = core.run_tlc('MCCursor', 'MCCursor' if tier == 'quick' else 'MCCursor_thorough', workers=core.NCPU, timeout=3000)
    if not mc.ok:
        print('MACHINERY: MCCursor failed\n' + mc.error)
        return 2
    rep.add_tlc(mc.generated, mc.distinct)
    rep.cov['design_level'] = {'module': 'MCCursor', 'states': mc.distinct}
    mut = core.run_tlc('MCCursor', 'MCCursor_mut', workers=core.NCPU, timeout=600)
    if 'Invariant Lands is violated' not in mut.output:
        print('MACHINERY: the wrong shift rule (MUT=1) was not rejected by MCCursor')
        return 2
    n = 40 if tier == 'quick' else 600
    step = 10
    jobs = [(core.seed(), i, min(n, i + step)) for i in range(0, n, step)]
    recs = [r for rs in core.pool_map(record, jobs, chunksize=1) for r in rs]
    ne = 12 if tier == 'quick' else 300
    ejobs = [(core.seed(), i, min(ne, i + 3)) for i in range(0, ne, 3)]
    recs += [r for rs in core.pool_map(record_expr, ejobs, chunksize=1) for r in rs]
    recs += record_rules()
    for i, r in enumerate(recs):
        r['tid'] = i
    # chain records skip the model comparison (no single edit log): mark so the spec only checks descent
    send = []
    for r in recs:
        q = {k: v for k, v in r.items() if k != 'src'}
        send.append(q)
    out = core.validate_trace('CursorTrace', send)
    rep.add_tlc(out.generated, out.distinct)
    by = {r['tid']: r for r in recs}
    for mm in out.mismatches:
        r = by[mm[0]]
        rep.mismatch({'clause': mm[1], 'config': r['config']},
                     {'src': r['src'], 'config': r['config'], 'where': r['where'], 'outcome': r['outcome'],
                      'sites': r.get('sites', r.get('marks')), 'edits': r.get('edits', r.get('gone')),
                      'fw': (r.get('fw', r.get('efw')) or [])[:12], 'clause': mm[1], 'full': r.get('full'), 'sub': r.get('sub'), 'at': r.get('at')})
    rep.cov.update({'evaluations': len(recs), 'traces_validated_against_impl': len(recs),
                    'distinct_nontrivial': sum(1 for r in recs if r.get('edits') or r.get('gone')),
                    'cursors_forwarded': sum(len(r.get('fw', r.get('efw')) or []) for r in recs),
                    'expression_sited_applications': sum(1 for r in recs if r.get('kind') == 'expr'),
                    'rewrite_rule_applications': sum(1 for r in recs if r.get('kind') == 'rule'),
                    'rule': 'seeded marker programs x 8 aimable strategy configurations x where in {None, -1, 0..k}; every statement cursor of '
                            'the old program forwarded; non-trivial = the application produced edits'})
    for r in recs[:: max(1, len(recs) // 3)][:3]:
        rep.sample({k: r.get(k) for k in ('src', 'config', 'where', 'outcome', 'sites', 'edits', 'marks', 'gone')})
    return rep.finish()


def replay(path: str) -> int:
    import json
    print(json.dumps(json.loads(open(path).read()), indent=1)[:4000])
    return 0
