"""
C03 -- Elementary functions and constants are correctly rounded.

Mode V: fpy2.ops.<fn>(x[, y], ctx=...) and fpy2.ops.const_*(ctx=...) over small operands and contexts of small precision (every
rounding mode, with and without a subnormal range, fixed-point targets).  For every case an ENCLOSURE of the true value is computed
by MPFR (gmpy2) at target precision + 80 bits with directed rounding (trusted base: MPFR's correct rounding), reduced outward to
22 significant bits so that TLC can read it, and spec/Elementary.tla decides: if both ends of the enclosure round, under the
specification's rounding function, to one and the same outcome, the code must have returned exactly that outcome (and the inexact
flag must say whether the true value is exact); otherwise the case is inconclusive at this resolution and is only counted.
"""
from __future__ import annotations

import itertools
import math
import random
from collections import Counter
from fractions import Fraction

import fpy2 as fp
import gmpy2 as gmp
from fpy2 import ops
from fpy2.number import Float

from .. import core
from ..export import OutOfDomain, ctx_json, num_json

RM = fp.RM
MODES = [RM.RNE, RM.RNA, RM.RTP, RM.RTN, RM.RTZ, RM.RAZ, RM.RTO, RM.RTE]
PREC = 160

UNARY = {
    'exp': gmp.exp, 'exp2': gmp.exp2, 'exp10': gmp.exp10, 'expm1': gmp.expm1, 'log': gmp.log, 'log2': gmp.log2, 'log10': gmp.log10,
    'log1p': gmp.log1p, 'sin': gmp.sin, 'cos': gmp.cos, 'tan': gmp.tan, 'asin': gmp.asin, 'acos': gmp.acos, 'atan': gmp.atan,
    'sinh': gmp.sinh, 'cosh': gmp.cosh, 'tanh': gmp.tanh, 'asinh': gmp.asinh, 'acosh': gmp.acosh, 'atanh': gmp.atanh,
    'erf': gmp.erf, 'erfc': gmp.erfc, 'tgamma': gmp.gamma, 'lgamma': lambda x: gmp.lgamma(x)[0],
}
BINARY = {'pow': lambda x, y: x ** y, 'atan2': gmp.atan2}


def _div(a, b):
    return lambda: a() / b()


CONSTS = {
    'const_pi': lambda: gmp.const_pi(), 'const_e': lambda: gmp.exp(1), 'const_log2e': lambda: 1 / gmp.const_log2(),
    'const_log10e': lambda: 1 / gmp.log(10), 'const_ln2': lambda: gmp.const_log2(), 'const_pi_2': lambda: gmp.const_pi() / 2,
    'const_pi_4': lambda: gmp.const_pi() / 4, 'const_1_pi': lambda: 1 / gmp.const_pi(), 'const_2_pi': lambda: 2 / gmp.const_pi(),
    'const_2_sqrt_pi': lambda: 2 / gmp.sqrt(gmp.const_pi()), 'const_sqrt2': lambda: gmp.sqrt(2), 'const_sqrt1_2': lambda: gmp.sqrt(gmp.mpfr(1) / 2),
}


def contexts(tier: str):
    out = []
    ps = range(1, 9) if tier == 'quick' else range(1, 11)
    for rm in MODES:
        for p in ps:
            out.append(fp.MPFloatContext(p, rm))
        out.append(fp.MPSFloatContext(3, -3, rm))
        out.append(fp.MPSFloatContext(5, -1, rm))
        out.append(fp.IEEEContext(3, 6, rm))
        out.append(fp.IEEEContext(4, 8, rm))
        out.append(fp.MPFixedContext(-4, rm))
        out.append(fp.MPFixedContext(-1, rm))
        out.append(fp.MPFixedContext(1, rm))
        if tier == 'thorough':
            out.append(fp.IEEEContext(4, 9, rm))        # (a deeper subnormal range leaves TLC's integers no room for the enclosure)
            out.append(fp.MPFixedContext(-9, rm))
            out.append(fp.MPBFloatContext(4, -2, fp.RealFloat(c=15, exp=0), rm))
    return out


def operands(tier: str):
    base = [Fraction(n, d) for d in (1, 2, 4, 8) for n in (1, 2, 3, 5, 7, 9, 10, 12)]
    base += [Fraction(1, 16), Fraction(3, 16), Fraction(17, 8), Fraction(13), Fraction(20)]
    vals = sorted(set(base))
    if tier == 'quick':
        vals = vals[::2] + [Fraction(1), Fraction(2), Fraction(10)]
    out = [Fraction(0)] + sorted(set(vals))
    return out + [-v for v in out if v != 0]


def to_mpfr(q: Fraction):
    return gmp.mpfr(q.numerator) / gmp.mpfr(q.denominator)       # exact: dyadic with few bits at PREC


def enclosure(thunk, composed: bool):
    """(kind, lo, hi) with lo <= true <= hi as Fractions, or ('sp', special, special)."""
    with gmp.context(precision=PREC, round=gmp.RoundDown, emin=gmp.get_emin_min(), emax=gmp.get_emax_max()):
        lo = thunk()
    with gmp.context(precision=PREC, round=gmp.RoundUp, emin=gmp.get_emin_min(), emax=gmp.get_emax_max()):
        hi = thunk()
    if gmp.is_nan(lo) or gmp.is_nan(hi):
        return ('sp', 'nan', None)
    if gmp.is_infinite(lo) or gmp.is_infinite(hi):
        if lo == hi:
            return ('sp', 'inf', lo < 0)
        return ('skip', None, None)
    if lo == 0 and hi == 0:
        return ('sp', 'zero', gmp.is_signed(lo))
    flo, fhi = Fraction(*map(int, lo.as_integer_ratio())), Fraction(*map(int, hi.as_integer_ratio()))
    if composed:
        # a constant assembled from several directed roundings: widen by a few units of the last place instead of trusting monotonicity
        w = max(abs(flo), abs(fhi)) * Fraction(1, 2 ** (PREC - 6))
        flo, fhi = min(flo, fhi) - w, max(flo, fhi) + w
    if flo > fhi:
        flo, fhi = fhi, flo
    return ('exact' if flo == fhi else 'inexact', flo, fhi)


def reduce22(kind, lo: Fraction, hi: Fraction, bits: int = 22):
    """outward reduction to 22 significant bits; returns (kind', lo', hi') or None when outside TLC's range"""
    if lo <= 0 <= hi and lo != hi:
        return None
    m = max(abs(lo), abs(hi))
    e = math.floor(math.log2(m)) if m > 0 else 0
    k = bits - 1 - e                             # scale so that the larger end has `bits` bits
    if k > (23 if bits >= 22 else 20) or k < -2:
        return None
    s = Fraction(2) ** k
    lo2 = Fraction(math.floor(lo * s)) / s
    hi2 = Fraction(math.ceil(hi * s)) / s
    if kind == 'exact' and (lo2 != lo or hi2 != hi):
        kind = 'unknown'
    return kind, lo2, hi2


def sp_json(what, neg):
    if what == 'nan':
        return {'k': 'nan'}
    if what == 'inf':
        return {'k': 'inf', 's': 1 if neg else 0}
    return {'k': 'fin', 's': 1 if neg else 0, 'n': 0, 'd': 1}


def out_json(thunk):
    try:
        r = thunk()
        return {'val': num_json(r), 'ix': bool(r.inexact)}
    except OutOfDomain:
        raise
    except Exception as e:      # noqa: BLE001
        return {'err': type(e).__name__}


def record(job):
    ci, tier = job
    ctx = contexts(tier)[ci]
    try:
        cj = ctx_json(ctx)
    except OutOfDomain:
        return [], Counter({'ctx-out-of-domain': 1})
    recs, stats = [], Counter()
    xs = operands(tier)

    def emit(fn, args, thunk_true, thunk_code, composed=False):
        kind, lo, hi = enclosure(thunk_true, composed)
        if kind == 'skip':
            stats['enclosure-not-tight'] += 1
            return
        if kind == 'sp':
            j = sp_json(lo, hi)
            loj = hij = j
        else:
            red = reduce22(kind, lo, hi, 22 if tier == 'quick' else 19)      # wider targets leave TLC less room
            if red is None:
                stats['outside-tlc-range'] += 1
                return
            kind, lo, hi = red
            try:
                loj, hij = num_json(lo), num_json(hi)
            except OutOfDomain:
                stats['outside-tlc-range'] += 1
                return
        try:
            out = out_json(thunk_code)
        except OutOfDomain:
            stats['result-out-of-domain'] += 1
            return
        recs.append({'ctx': cj, 'fn': fn, 'args': [str(a) for a in args], 'kind': kind, 'lo': loj, 'hi': hij, 'out': out})

    for name, g in UNARY.items():
        f = getattr(ops, name)
        for x in xs:
            emit(name, [x], lambda: g(to_mpfr(x)), lambda: f(Float.from_rational(x), ctx=ctx) if x != 0 else f(Float.from_int(0), ctx=ctx))
    small = [x for x in xs if abs(x) <= 4 and x.denominator <= 4][:: (2 if tier == 'quick' else 1)]
    for name, g in BINARY.items():
        f = getattr(ops, name)
        for x, y in itertools.product(small, small):
            emit(name, [x, y], lambda: g(to_mpfr(x), to_mpfr(y)), lambda: f(Float.from_rational(x), Float.from_rational(y), ctx=ctx))
    for name, g in CONSTS.items():
        f = getattr(ops, name)
        emit(name, [], g, lambda: f(ctx=ctx), composed=True)
    return recs, stats


# ---------------------------------------------------------------------------------------------------------------
# wide precisions: numbers as multi-limb integers, judged by spec/WideRound.tla

WIDE_PREC = 700
LIMB = 15


def limbs(n: int, length: int):
    out = []
    for _ in range(length):
        out.append(n & ((1 << LIMB) - 1))
        n >>= LIMB
    assert n == 0
    return out


def wide_contexts(tier: str):
    ps = [24, 53, 113, 150, 237] if tier == 'quick' else [24, 53, 64, 113, 114, 117, 118, 150, 200, 237, 300, 500]
    return [fp.MPFloatContext(p, rm) for p in ps for rm in MODES]


def record_wide(job):
    ci, tier = job
    ctx = wide_contexts(tier)[ci]
    p = ctx.pmax
    recs, stats = [], Counter()
    K = WIDE_PREC - p - 24                          # the enclosure is that many digits finer than one unit in the last place

    def emit(fn, args, thunk_true, thunk_code):
        with gmp.context(precision=WIDE_PREC, round=gmp.RoundDown, emin=gmp.get_emin_min(), emax=gmp.get_emax_max()):
            lo = thunk_true()
        with gmp.context(precision=WIDE_PREC, round=gmp.RoundUp, emin=gmp.get_emin_min(), emax=gmp.get_emax_max()):
            hi = thunk_true()
        if gmp.is_nan(lo) or gmp.is_infinite(lo) or gmp.is_infinite(hi) or lo == hi or lo == 0 or hi == 0 or (lo < 0) != (hi < 0):
            stats['not-an-irrational-finite-nonzero-result'] += 1
            return
        try:
            r = thunk_code()
        except Exception as e:      # noqa: BLE001
            stats[f'code-raised:{type(e).__name__}'] += 1
            return
        if r.is_nar() or r.is_zero():
            recs.append({'mode': ctx.rm.name, 'neg': False, 'modd': False, 'ix': bool(r.inexact), 'm': [0], 'u': [2], 'lo': [1], 'hi': [0],
                         'fn': fn, 'args': [str(a) for a in args], 'p': p, 'res': str(r)})
            return
        flo, fhi = Fraction(*map(int, lo.as_integer_ratio())), Fraction(*map(int, hi.as_integer_ratio()))
        w = max(abs(flo), abs(fhi)) * Fraction(1, 2 ** (WIDE_PREC - 8))          # composed thunks: a few units of slack
        flo, fhi = min(flo, fhi) - w, max(flo, fhi) + w
        neg = fhi < 0
        if neg:
            flo, fhi = -fhi, -flo
        c, e = int(r.c), int(r.exp)
        sh = p - c.bit_length()
        if sh < 0:
            recs.append({'mode': ctx.rm.name, 'neg': neg, 'modd': False, 'ix': bool(r.inexact), 'm': [0], 'u': [2], 'lo': [1], 'hi': [0],
                         'fn': fn, 'args': [str(a) for a in args], 'p': p, 'res': 'more than p digits'})
            return
        M, eM = c << sh, e - sh                        # exactly p digits
        E = eM - K
        scale = Fraction(2) ** (-E)
        m, u = M << K, 1 << K
        ilo, ihi = math.floor(flo * scale), math.ceil(fhi * scale)
        if bool(r.s) != neg:
            ilo, ihi = 0, 1                              # wrong sign: far from m on this scale
        L = max(x.bit_length() for x in (m + u, ilo, ihi + 1)) // LIMB + 2
        recs.append({'mode': ctx.rm.name, 'neg': neg, 'modd': bool(M & 1), 'ix': bool(r.inexact), 'm': limbs(m, L), 'u': limbs(u, L),
                     'lo': limbs(ilo, L), 'hi': limbs(ihi, L), 'fn': fn, 'args': [str(a) for a in args], 'p': p, 'res': str(r)[:60]})

    for name, g in CONSTS.items():
        f = getattr(ops, name)
        emit(name, [], g, lambda: f(ctx=ctx))
    xs = [Fraction(1, 2), Fraction(3), Fraction(-5, 4), Fraction(7, 8), Fraction(10)]
    for name in ('exp', 'log', 'sin', 'cos', 'atan', 'tanh', 'log2', 'expm1', 'erf', 'tgamma', 'asinh', 'exp2'):
        g, f = UNARY[name], getattr(ops, name)
        for x in xs:
            emit(name, [x], lambda: g(to_mpfr(x)), lambda: f(Float.from_rational(x), ctx=ctx))
    for x, y in ((Fraction(3, 2), Fraction(1, 2)), (Fraction(5), Fraction(-3, 4)), (Fraction(7, 4), Fraction(5, 2))):
        emit('pow', [x, y], lambda: to_mpfr(x) ** to_mpfr(y), lambda: ops.pow(Float.from_rational(x), Float.from_rational(y), ctx=ctx))
        emit('atan2', [x, y], lambda: gmp.atan2(to_mpfr(x), to_mpfr(y)), lambda: ops.atan2(Float.from_rational(x), Float.from_rational(y), ctx=ctx))
    return recs, stats


def run(tier: str) -> int:
    rep = core.Report('C03', tier)
    mcw = core.run_tlc('MCWideRound', 'MCWideRound', workers=1, timeout=600)
    if not mcw.ok:
        print('MACHINERY: MCWideRound failed\n' + mcw.error)
        return 2
    rep.add_tlc(mcw.generated, mcw.distinct)
    n = len(contexts(tier))
    jobs = [(i, tier) for i in range(n)]
    if tier == 'quick':
        off = core.seed() % 2
        jobs = [j for k, j in enumerate(jobs) if k % 2 == off]
    res = core.pool_map(record, jobs, chunksize=2)
    recs, stats = [], Counter()
    for r, st in res:
        recs += r
        stats.update(st)
    for i, r in enumerate(recs):
        r['tid'] = i
    out = core.validate_trace('ElementaryTrace', recs)
    rep.add_tlc(out.generated, out.distinct)
    by = {r['tid']: r for r in recs}
    inconclusive = 0
    for mm in out.mismatches:
        r = by[mm[0]]
        if mm[1] == 'inconclusive':
            inconclusive += 1
            continue
        rep.mismatch({'clause': mm[1], 'fn': r['fn']}, r)
    # ---- wide precisions
    wres = core.pool_map(record_wide, [(i, tier) for i in range(len(wide_contexts(tier)))], chunksize=2)
    wrecs = []
    for r, st in wres:
        wrecs += r
        stats.update(st)
    for i, r in enumerate(wrecs):
        r['tid'] = i
    wout = core.validate_trace('WideRoundTrace', [{k: v for k, v in r.items() if k not in ('fn', 'args', 'p', 'res')} for r in wrecs])
    rep.add_tlc(wout.generated, wout.distinct)
    wby = {r['tid']: r for r in wrecs}
    for mm in wout.mismatches:
        r = wby[mm[0]]
        rep.mismatch({'clause': mm[1], 'fn': r['fn']}, {k: r[k] for k in ('fn', 'args', 'p', 'mode', 'res', 'ix')} | {'clause': mm[1]})
    rep.cov['wide_precision_evaluations'] = len(wrecs)
    rep.cov['wide_precisions'] = sorted({r['p'] for r in wrecs})
    rep.cov.update({'contexts': len(jobs), 'evaluations': len(recs) + len(wrecs), 'traces_validated_against_impl': len(recs) + len(wrecs) - inconclusive,
                    'inconclusive_at_22_bits': inconclusive, 'distinct_nontrivial': len({(r['fn'], tuple(r['args'])) for r in recs}),
                    'by_kind': dict(Counter(r['kind'] for r in recs)), 'not_judged': dict(stats),
                    'functions': sorted(set(r['fn'] for r in recs)),
                    'rule': '24 unary + 2 binary functions + 12 constants x dyadic operands |x| <= 20 x contexts (MPFloat p = 1..8 (10), MPSFloat, IEEE with '
                            'subnormals and overflow, MPFixed at three positions; all 8 modes); enclosure by MPFR at 160 bits, directed rounding'})
    for r in recs[:: max(1, len(recs) // 3)][:3]:
        rep.sample(r)
    return rep.finish()


def replay(path: str) -> int:
    return core.replay_saved('C03', 'ElementaryTrace', path)
