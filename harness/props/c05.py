"""
C05 -- Number values behave as the real numbers they denote.

Design level: spec/MCNumberOps.tla (add/mul/compare arms on encodings = denotational).
Mode V: every pair of a pool of encodings (redundant encodings, zeros with arbitrary exponent,
-0, inf, NaN) in every mix of Float / RealFloat / int / float / Fraction and both operand
orders, through the Python operators; conversions, hash, split, normalize, bit tests.
"""
from __future__ import annotations

import itertools
import operator
from fractions import Fraction

from fpy2.number import Float, RealFloat
from fpy2.utils import Ordering

from .. import core
from ..export import OutOfDomain, num_json

ARITH = {'add': operator.add, 'sub': operator.sub, 'mul': operator.mul}
CMPS = {'eq': operator.eq, 'lt': operator.lt, 'le': operator.le, 'gt': operator.gt, 'ge': operator.ge}


def pool(tier: str):
    big = tier == 'thorough'
    cs = (0, 1, 3, 4, 6) + ((2, 5, 12) if big else ())
    es = (-2, 0, 1, 2) + ((-1, 3) if big else ())
    out = []
    for c in cs:
        for e in es:
            for s in (False, True):
                out.append(('RealFloat', RealFloat(s=s, c=c, exp=e)))
                out.append(('Float', Float(s=s, c=c, exp=e)))
    out += [('Float', Float(isinf=True)), ('Float', Float(isinf=True, s=True)), ('Float', Float(isnan=True))]
    out += [('int', i) for i in (0, 1, -3, 4, 12, -24)]
    out += [('float', f) for f in (0.0, -0.0, 0.75, -1.5, 16.0, float('inf'), float('-inf'), float('nan'))]
    out += [('Fraction', q) for q in (Fraction(0), Fraction(1, 2), Fraction(-3, 4), Fraction(6), Fraction(1, 3), Fraction(-5, 7))]
    return out


def _fpy(x):
    return isinstance(x, (Float, RealFloat))


def _nondyadic(x):
    return isinstance(x, Fraction) and (x.denominator & (x.denominator - 1)) != 0


def _ord(o):
    if o is None:
        return 2
    return {Ordering.LESS: -1, Ordering.EQUAL: 0, Ordering.GREATER: 1}[o]


def record(job):
    lo, hi, tier = job
    P = pool(tier)
    recs = []
    for i in range(lo, hi):
        ta, a = P[i]
        try:
            aj = num_json(a)
        except OutOfDomain:
            continue
        # unary / single-operand records
        if _fpy(a):
            for name, fn in (('neg', operator.neg), ('pos', operator.pos), ('abs', abs)):
                try:
                    out = {'val': num_json(fn(a))}
                except Exception as e:      # noqa: BLE001
                    out = {'err': type(e).__name__}
                recs.append({'op': name, 'args': [aj], 'at': [ta], 'out': out})
            for name, fn in (('int', int), ('float', float), ('rational', lambda v: v.as_rational())):
                try:
                    out = {'val': num_json(fn(a))}
                except OutOfDomain:
                    continue
                except Exception as e:      # noqa: BLE001
                    out = {'err': type(e).__name__}
                recs.append({'op': name, 'args': [aj], 'at': [ta], 'out': out})
            for n in (0, 1, 2, 3, 5):
                try:
                    out = {'val': num_json(a ** n)}
                except OutOfDomain:
                    continue
                except Exception as e:      # noqa: BLE001
                    out = {'err': type(e).__name__}
                recs.append({'op': 'pow', 'args': [aj], 'n': n, 'refusable': False, 'at': [ta], 'out': out})
            fin = isinstance(a, RealFloat) or not a.is_nar()
            if fin:
                for n in (-3, -2, -1, 0, 1, 2, 4):
                    try:
                        h, l = a.split(n)
                        out = {'hi': num_json(h), 'lo': num_json(l)}
                    except Exception as e:  # noqa: BLE001
                        out = {'err': type(e).__name__}
                    recs.append({'op': 'split', 'args': [aj], 'n': n, 'at': [ta], 'out': out})
                    r = a if isinstance(a, RealFloat) else a.as_real()
                    try:
                        out = {'b': bool(r.is_more_significant(n))}
                    except Exception as e:  # noqa: BLE001
                        out = {'err': type(e).__name__}
                    recs.append({'op': 'msig', 'args': [aj], 'n': n, 'at': [ta], 'out': out})
                    try:
                        out = {'b': bool(r.bit(n))}
                    except Exception as e:  # noqa: BLE001
                        out = {'err': type(e).__name__}
                    recs.append({'op': 'bit', 'args': [aj], 'n': n, 'at': [ta], 'out': out})
                for (p, n) in ((None, -4), (5, None), (6, None), (8, -6)):
                    try:
                        v = a.normalize(p, n)
                        out = {'val': num_json(v), 'cbits': v.c.bit_length(), 'exp': v.exp}
                    except Exception as e:  # noqa: BLE001
                        out = {'err': type(e).__name__}
                    recs.append({'op': 'normalize', 'args': [aj], 'p': (p or 0) if n is None else 0, 'hasn': n is not None and p is None,
                                 'n': n if n is not None else 0, 'at': [ta], 'out': out})
        # binary records
        for (tb, b) in P:
            if not (_fpy(a) or _fpy(b)):
                continue
            try:
                bj = num_json(b)
            except OutOfDomain:
                continue
            refusable = _nondyadic(a) or _nondyadic(b)
            for name, fn in ARITH.items():
                try:
                    out = {'val': num_json(fn(a, b))}
                except OutOfDomain:
                    continue
                except Exception as e:      # noqa: BLE001
                    out = {'err': type(e).__name__}
                recs.append({'op': name, 'args': [aj, bj], 'refusable': refusable, 'at': [ta, tb], 'out': out})
            for name, fn in CMPS.items():
                try:
                    out = {'b': bool(fn(a, b))}
                except Exception as e:      # noqa: BLE001
                    out = {'err': type(e).__name__}
                recs.append({'op': name, 'args': [aj, bj], 'at': [ta, tb], 'out': out})
            if _fpy(a):
                try:
                    out = {'o': _ord(a.compare(b))}
                except Exception as e:      # noqa: BLE001
                    out = {'err': type(e).__name__}
                recs.append({'op': 'compare', 'args': [aj, bj], 'at': [ta, tb], 'out': out})
    return recs


def _triple(s, c, e):
    if c == 0:
        return {'s': int(s), 'c': 0, 'e': 0}
    while c % 2 == 0:
        c //= 2
        e += 1
    return {'s': int(s), 'c': c, 'e': e}


def wide_conversions():
    """float()/int()/as_rational() on values whose exponents are far outside TLC's integers."""
    recs = []
    exps = list(range(-1082, -1068)) + list(range(-1030, -1018)) + list(range(965, 1026)) + [-60, -1, 0, 40, 52, 53, 70]
    for c in (1, 3, 5, 7, 13):
        for e in exps:
            for s in (False, True):
                for mk in (lambda: RealFloat(s=s, c=c, exp=e), lambda: Float(s=s, c=c, exp=e), lambda: Float(s=s, c=c << 2, exp=e - 2)):
                    x = mk()
                    xt = _triple(s, c, e)
                    for name, fn in (('float', float), ('int', int)):
                        try:
                            y = fn(x)
                            if isinstance(y, float):
                                if y != y or y in (float('inf'), float('-inf')):
                                    out = {'s': 0, 'c': -1, 'e': 0}
                                else:
                                    n, d = abs(y).as_integer_ratio()
                                    import math
                                    out = _triple(math.copysign(1.0, y) < 0, n, -(d.bit_length() - 1))
                            else:
                                out = _triple(y < 0 or (y == 0 and s), abs(y), 0)
                                if y == 0:
                                    out = {'s': int(s), 'c': 0, 'e': 0}
                            if out['c'] >= (1 << 24):
                                continue
                        except Exception as ex:     # noqa: BLE001
                            out = {'err': type(ex).__name__}
                        recs.append({'op': 'conv_dy', 'conv': name, 'args': [], 'x': xt, 'out': out, 'at': [type(x).__name__]})
    return recs


def hashtable(tier: str):
    rows = []
    for (t, v) in pool(tier):
        try:
            rows.append({'v': num_json(v), 'h': hash(v) % 1000003, 't': t})
        except OutOfDomain:
            pass
    return {'op': 'hashtable', 'args': [], 'rows': rows, 'out': {}}


def run(tier: str) -> int:
    rep = core.Report('C05', tier)
    mc = core.run_tlc('MCNumberOps', 'MCNumberOps', workers=core.NCPU, timeout=3000, extra=['-coverage', '1'])
    if not mc.ok:
        print('MACHINERY: MCNumberOps failed\n' + mc.error)
        return 2
    rep.add_tlc(mc.generated, mc.distinct)
    rep.cov['design_level'] = {'module': 'MCNumberOps', 'states': mc.distinct, 'actions': mc.coverage}
    n = len(pool(tier))
    step = 6
    jobs = [(i, min(n, i + step), tier) for i in range(0, n, step)]
    recs = [r for rs in core.pool_map(record, jobs, chunksize=1) for r in rs]
    recs.append(hashtable(tier))
    recs.extend(wide_conversions())
    for i, r in enumerate(recs):
        r['tid'] = i
    out = core.validate_trace('NumberOpsTrace', recs)
    rep.add_tlc(out.generated, out.distinct)
    rep.cov['traces_validated_against_impl'] = len(recs)
    rep.cov['evaluations'] = len(recs)
    rep.cov['distinct_nontrivial'] = len({(r['op'], repr(r['args']), repr(r.get('at'))) for r in recs
                                          if len(r['args']) == 2 and r['at'][0] != r['at'][1]})
    rep.cov['rule'] = ('all ordered pairs of the operand pool (encodings c x exp x sign as RealFloat and Float, specials, int, float, '
                       'Fraction) x {+,-,*,==,<,<=,>,>=,compare}, unary ops, conversions, split/bit tests; non-trivial = mixed-type pair')
    rep.cov['exhaustive'] = True
    for r in recs[:: max(1, len(recs) // 5)][:5]:
        rep.sample({k: v for k, v in r.items() if k != 'rows'})
    by = {r['tid']: r for r in recs}
    for mm in out.mismatches:
        r = by[mm[0]]
        key = {'op': r['op'], 'clause': mm[1], 'types': '/'.join(r.get('at', []))}
        rep.mismatch(key, {k: v for k, v in r.items() if k != 'rows'})
    return rep.finish()


def replay(path: str) -> int:
    return core.replay_saved('C05', 'NumberOpsTrace', path, rerun=globals().get('_rerun'))
