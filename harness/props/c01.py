"""
C01 -- Rounding under any context is correct rounding.

Mode V: every (context, operand) of the enumeration is rounded by the real code and the
record is judged by spec/RoundingTrace.tla (Rounding!Expect).
Design level: spec/MCRounding.tla checks the arithmetic definition against the set-based
declarative one and the operational transcription of RealFloat._round_at.
"""
from __future__ import annotations

import random
from fractions import Fraction

import fpy2 as fp
from fpy2.number import Float, RealFloat

from .. import core, gen_num
from ..export import OutOfDomain, ctx_json, num_json, RealContext

SPECIALS = [('Float', Float(isnan=True)), ('Float', Float(isinf=True)), ('Float', Float(isinf=True, s=True)),
            ('float', float('nan')), ('float', float('inf')), ('float', float('-inf')),
            ('Float', Float(s=True, c=0, exp=0)), ('Float', Float(s=False, c=0, exp=-5)),
            ('RealFloat', RealFloat(s=True, c=0, exp=3)), ('float', -0.0), ('int', 0), ('Fraction', Fraction(0))]


def _call(ctx, x, n):
    try:
        r = ctx.round(x) if n is None else ctx.round_at(x, n)
    except Exception as e:            # noqa: BLE001 - the class is the observation
        return {'err': type(e).__name__}
    try:
        rep = bool(ctx.representable_under(r))
    except Exception:                 # noqa: BLE001
        rep = False
    return {'val': num_json(r), 'ix': bool(r.inexact), 'ov': bool(r.overflow), 'rep': rep}


def record_ctx(args):
    """All records of one context: list of dicts (without tid)."""
    ctx, dense, with_at = args
    try:
        cj = ctx_json(ctx)
    except OutOfDomain:
        return [], 1
    recs, ood = [], 0
    pts = gen_num.operand_points(ctx, dense)
    thirds = gen_num.third_points(pts)
    cases = []
    for q in pts + thirds:
        for sgn in (1, -1):
            if q == 0 and sgn == -1:
                continue
            cases.append(gen_num.spellings(sgn * q))
    cases.extend([[sp] for sp in SPECIALS])
    ns = [None]
    if with_at and not isinstance(ctx, RealContext):
        nm = getattr(ctx, 'nmin', None)
        base = nm if nm is not None else -2
        ns += [base - 1, base + 1, base + 2]
    for n in ns:
        for sp in cases:
            try:
                xj = num_json(sp[0][1])
            except OutOfDomain:
                ood += 1
                continue
            groups = {}
            for (tn, obj) in sp:
                try:
                    out = _call(ctx, obj, n)
                except OutOfDomain:
                    ood += 1
                    continue
                groups.setdefault(repr(sorted(out.items(), key=str)), (out, []))[1].append(tn)
            for out, tns in groups.values():
                recs.append({'ctx': cj, 'x': xj, 'xt': tns, 'hasn': n is not None, 'n': 0 if n is None else n, 'out': out})
    return recs, ood


def run(tier: str) -> int:
    rep = core.Report('C01', tier)
    rng = random.Random(core.seed())
    ctxs = gen_num.contexts(tier, rng)
    if tier == 'quick':
        # the big families are thinned (a different quarter for each seed); every family,
        # mode, overflow mode and special-value configuration still occurs
        big = ('EFloatContext', 'MPBFloatContext', 'FixedContext', 'MPBFixedContext', 'SMFixedContext')
        off = core.seed() % 4
        ctxs = [c for i, c in enumerate(ctxs) if type(c).__name__ not in big or i % 4 == off]
    dense = 4
    jobs = [(c, dense, (i % 5 == 0) or tier == 'thorough') for i, c in enumerate(ctxs)]
    results = core.pool_map(record_ctx, jobs, chunksize=8)
    records, ood = [], 0
    for recs, o in results:
        ood += o
        records.extend(recs)
    for i, r in enumerate(records):
        r['tid'] = i
    rep.cov['contexts'] = len(ctxs)
    rep.cov['out_of_domain'] = ood
    rep.cov['evaluations'] = sum(len(r['xt']) for r in records)

    # --- design-level model check (spec alone)
    mc = core.run_tlc('MCRounding', 'MCRounding_quick' if tier == 'quick' else 'MCRounding_thorough',
                      workers=core.NCPU, timeout=3000, extra=['-coverage', '1'])
    if not mc.ok:
        print('MACHINERY: MCRounding failed\n' + mc.error)
        return 2
    rep.add_tlc(mc.generated, mc.distinct)
    rep.cov['design_level'] = {'module': 'MCRounding', 'states': mc.distinct, 'generated': mc.generated}

    # --- mode V
    out = core.validate_trace('RoundingTrace', records)
    rep.add_tlc(out.generated, out.distinct)
    rep.cov['traces_validated_against_impl'] = len(records)
    nontriv = set()
    for r in records:
        o = r['out']
        if 'err' in o or o.get('ix') or o.get('ov') or r['x']['k'] != 'fin':
            nontriv.add((repr(r['ctx']), repr(r['x']), r['hasn'], r['n']))
    rep.cov['distinct_nontrivial'] = len(nontriv)
    rep.cov['rule'] = ('every context of harness/gen_num.contexts x every quarter-gap operand, thirds of gaps, specials; '
                       'non-trivial = operand not representable, special, or raising')
    rep.cov['exhaustive'] = True
    for r in records[:: max(1, len(records) // 5)][:5]:
        rep.sample(r)
    by_tid = {r['tid']: r for r in records}
    for mm in out.mismatches:
        tid, clause = mm[0], mm[1]
        r = by_tid[tid]
        key = {'fam': r['ctx']['fam'], 'ov': r['ctx'].get('ov', ''), 'clause': clause,
               'rm': r['ctx'].get('rm', ''), 'op': 'round_at' if r['hasn'] else 'round'}
        rep.mismatch(key, r)
    rep.assumptions = ['TLC 32-bit integers: operands with numerator/denominator < 2^24',
                       'stochastic contexts are covered by C17, not here']
    return rep.finish()


def _rerun(case):
    from ..export import ctx_of_json, num_of_json
    ctx = ctx_of_json(case['ctx'])
    xj = case['x']
    x = num_of_json(xj) if xj['k'] != 'fin' or (xj['d'] & (xj['d'] - 1)) == 0 else Fraction(xj['n'], xj['d']) * (-1 if xj['s'] else 1)
    case = dict(case)
    case['out'] = _call(ctx, x, case['n'] if case['hasn'] else None)
    return case


def replay(path: str) -> int:
    return core.replay_saved('C01', 'RoundingTrace', path, rerun=globals().get('_rerun'))
