"""
C20 -- Library decompositions are exact.

The REAL ASTs of fpy2.libraries.eft (2sum / 2mul / fma variants, veltkamp_split) and core (ldexp, and
the Python primitives split / modf / frexp through one-line wrappers) are exported and run by TLC on the
abstract machine for every operand tuple of small floating-point formats; spec/EFT.tla checks the
function's law (exact recombination) on the machine's result and compares it with what the real
library returned.
"""
from __future__ import annotations

import itertools
import shutil
import tempfile
from collections import Counter

import fpy2 as fp
from fpy2.libraries import core as fcore
from fpy2.libraries import eft

from .. import core, gen_prog, progrun
from ..export import OutOfDomain, ctx_json
from ..export_prog import Unsupported, export_program, value_json

RM = fp.RM

WRAPPERS = {
    'w_split': '''@fp.fpy
def w_split(x: fp.Real, n: fp.Real):
    return core.split(x, n)''',
    'w_modf': '''@fp.fpy
def w_modf(x: fp.Real):
    return core.modf(x)''',
    'w_frexp': '''@fp.fpy
def w_frexp(x: fp.Real):
    return core.frexp(x)''',
}


def fmt_values(p: int, exps, specials=True):
    vals = [fp.Float(c=0, exp=0)]
    for e in exps:
        for c in range(1 << (p - 1), 1 << p):
            for s in (False, True):
                vals.append(fp.Float(s=s, c=c, exp=e - (p - 1)))
    if specials:
        vals += [fp.Float(s=True, c=0, exp=0), fp.Float(isinf=True), fp.Float(isinf=True, s=True), fp.Float(isnan=True)]
    return vals


def cases(tier: str):
    """(function, law, arity, contexts, operand-exponents)"""
    big = tier == 'thorough'
    ps = (2, 3, 4) if not big else (2, 3, 4, 5)
    near = [fp.MPFloatContext(p, RM.RNE) for p in ps]
    anymode = [fp.MPFloatContext(p, rm) for p in ps[:2] for rm in (RM.RNE, RM.RTZ, RM.RTP, RM.RAZ)]
    ideal = anymode + [fp.MPSFloatContext(3, -1, RM.RNE), fp.MPFixedContext(-2, RM.RTZ), fp.IEEEContext(3, 6, RM.RTN)]
    out = [
        (eft.ideal_2sum, 'sum', 2, ideal),
        (eft.fast_2sum, 'sum', 2, near),
        (eft.classic_2sum, 'sum', 2, near),
        (eft.priest_2sum, 'sum', 2, near + anymode + [fp.MPFloatContext(4, rm) for rm in (RM.RTZ, RM.RTP, RM.RTN, RM.RAZ)]),        # Priest's algorithm asks for a floating-point context only: any rounding mode
        (eft.ideal_2mul, 'prod', 2, ideal),
        (eft.fast_2mul, 'prod', 2, anymode),
        (eft.classic_2mul, 'prod', 2, near),
        (eft.veltkamp_split, 'vsplit', 2, near),
        (eft.ideal_fma, 'fma', 3, ideal[:6]),
        (eft.classic_2fma, 'fma', 3, near[:2]),
        (fcore.ldexp, 'ldexp', 2, anymode + [fp.MPSFloatContext(3, -1, RM.RNE), fp.IEEEContext(3, 6, RM.RNE)]),
    ]
    return out


def precision_of(ctx):
    return getattr(ctx, 'pmax', 3)


def vectors_for(fn, law, arity, ctx, tier):
    p = precision_of(ctx) if not isinstance(ctx, fp.MPFixedContext) else 3
    p = min(p, 4)
    exps = (-1, 0, 1) if tier == 'quick' else (-2, -1, 0, 1, 2)
    if law == 'sum':
        # one operand below an ulp of the other (where a directed rounding pushes the sum a whole ulp away)
        exps = (-5, -1, 0, 1) if tier == 'quick' else (-6, -4, -2, -1, 0, 1, 2)
    vals = fmt_values(p, exps)
    if law == 'vsplit':
        return [[x, s] for x in vals for s in range(1, max(2, p))]
    if law == 'ldexp':
        return [[x, n] for x in vals for n in (-3, -1, 0, 2, 4)]
    if arity == 3:
        small = fmt_values(min(p, 2), (-1, 0, 1), specials=False) + [fp.Float(isinf=True)]
        triples = [list(t) for t in itertools.product(small, repeat=3)]
        if p >= 3:
            # full-width significands as well (a * b + c with every digit in use), positive and negative, one binade
            wide = fmt_values(3, (0,), specials=False)
            triples += [list(t) for t in itertools.product(wide, wide, fmt_values(2, (-1, 0), specials=False))]
        return triples
    return [list(t) for t in itertools.product(vals, repeat=2)]


def record(job):
    idx, tier, ci = job
    fn, law, arity, ctxs = cases(tier)[idx]
    ctx = ctxs[ci]
    try:
        prog, _ = export_program(fn, 0)
    except (Unsupported, OutOfDomain) as e:
        return ('unsupported', f'{fn.name}: {e}')
    ins = []
    for args in vectors_for(fn, law, arity, ctx, tier):
        try:
            aj = [value_json(a) for a in args]
        except (OutOfDomain, Unsupported):
            continue
        out = progrun.run_real(fn, args, ctx)
        if 'ood' in out:
            continue
        ins.append({'args': aj, 'ctx': [ctx_json(ctx)], 'out': out})
    prog['inputs'] = ins
    prog['law'] = law
    prog['src'] = f'{fn.name} under {ctx}'
    return prog


def record_wrappers(tier, work):
    funcs, rej = {}, {}
    progs = []
    src_all = 'from fpy2.libraries import core\n'
    for name, text in WRAPPERS.items():
        mod = gen_prog.load_module(gen_prog.HEADER + src_all + text + '\n', work, f'c20w_{name}')
        fn = getattr(mod, name)
        law = name[2:]
        for ctx in (fp.REAL, fp.MPFloatContext(5), fp.MPFixedContext(-3), fp.MPFloatContext(2)):
            try:
                prog, _ = export_program(fn, 0)
            except (Unsupported, OutOfDomain) as e:
                progs.append(('unsupported', f'{name}: {e}'))
                continue
            vals = fmt_values(3, (-2, -1, 0, 1, 2)) + [fp.Float(c=45, exp=-3), fp.Float(s=True, c=77, exp=-5)]
            # exponents the narrow contexts cannot hold (5 and -5 have three digits): the parts are exact whatever the context
            vals += [fp.Float(c=3, exp=4), fp.Float(s=True, c=5, exp=3), fp.Float(c=5, exp=-7), fp.Float(c=7, exp=8)]
            if ctx is fp.REAL:
                # exact rationals no Float holds (values of the real context)
                from fractions import Fraction
                vals = vals + [Fraction(1, 3), Fraction(-22, 7), Fraction(5, 6)]
            vecs = [[x, n] for x in vals for n in (-3, -1, 0, 1)] if law == 'split' else [[x] for x in vals]
            ins = []
            for args in vecs:
                out = progrun.run_real(fn, args, ctx)
                if 'ood' in out:
                    continue
                ins.append({'args': [value_json(a) for a in args], 'ctx': [ctx_json(ctx)], 'out': out})
            prog['inputs'] = ins
            prog['law'] = law
            prog['src'] = f'{name} under {ctx}'
            progs.append(prog)
    return progs


def run(tier: str) -> int:
    rep = core.Report('C20', tier)
    stats = Counter()
    work = tempfile.mkdtemp(prefix='verif-c20-')
    try:
        jobs = [(i, tier, ci) for i, c in enumerate(cases(tier)) for ci in range(len(c[3]))]
        progs = core.pool_map(record, jobs, chunksize=1)
        progs += record_wrappers(tier, work)
        good = []
        for p in progs:
            if isinstance(p, tuple):
                stats[p[0] + ': ' + p[1]] += 1
            else:
                p['pid'] = len(good)
                good.append(p)
        mm, skips, gen, dis = progrun.run_machine(good, cfg='EFT', module='EFT')
        mm, skips = progrun.split_big({p['pid']: p for p in good}, mm, skips)
    finally:
        shutil.rmtree(work, ignore_errors=True)
    rep.add_tlc(gen, dis)
    by = {p['pid']: p for p in good}
    for (pid, idx, clause, merr) in mm:
        p = by[pid]
        rep.mismatch({'clause': clause, 'function': p['main'], 'law': p['law']},
                     {'case': p['src'], 'input': p['inputs'][idx - 1], 'clause': clause, 'machine_error': merr})
    # a decomposition whose stated preconditions hold (finite operands, a nearest floating-point context: arranged by `cases`) has to
    # return; only the fast variants have a precondition on the operands themselves (ordered magnitudes) that their assert checks
    for p in good:
        if p['main'] in ('fast_2sum',) or p['law'] not in ('sum', 'prod', 'fma'):
            continue
        for idx, i_ in enumerate(p['inputs']):
            if i_['out'].get('err') == 'AssertionError' and all(a.get('k') == 'fin' for a in i_['args']):
                rep.mismatch({'clause': 'raises-although-the-stated-preconditions-hold', 'function': p['main'], 'law': p['law']},
                             {'case': p['src'], 'input': i_, 'clause': 'raises-although-the-stated-preconditions-hold'})
    skipc = Counter(s[3] for s in skips)
    runs = sum(len(p['inputs']) for p in good)
    rep.cov.update({'programs': len(good), 'evaluations': runs, 'traces_validated_against_impl': runs - sum(skipc.values()),
                    'distinct_nontrivial': sum(1 for p in good for i in p['inputs'] if 'val' in i['out']),
                    'skipped_by_reason': dict(skipc), 'not_run': dict(stats),
                    'functions': sorted({p['main'] for p in good}),
                    'rule': 'every operand tuple (triples on 2-bit operands) of the floating-point format of each context, specials included, '
                            'for each library function under the contexts its docstring allows; non-trivial = the real function returned'})
    for p in good[:3]:
        rep.sample({'case': p['src'], 'law': p['law'], 'input': p['inputs'][len(p['inputs']) // 2]})
    return rep.finish()


def replay(path: str) -> int:
    import json
    print(json.dumps(json.loads(open(path).read()), indent=1)[:4000])
    return 0
