"""
C12 -- Translation to and from FPCore preserves meaning.

Programs of the FPCore-expressible subset (explicitly rounded constants, sequential and nested `with` blocks with statements
after an inner block, if / while / for, tuples, fixed-size lists, reductions) are generated as source text.  The abstract machine
(spec/FPyMachine.tla) runs the REAL front-end AST on every argument vector; its outcome is the expected one, and TLC judges
three observed outcomes against it in the same run (MCMachine!Judge):
  fpy      the real interpreter on the original function (as in C04),
  titanfp  the reference FPCore evaluator on FPCoreCompiler().compile(f),
  reread   the real interpreter on Function.from_fpcore(compile(f)).
"""
from __future__ import annotations

import random
import shutil
import tempfile
from collections import Counter

import fpy2 as fp
from fpy2 import FPCoreCompiler
from fpy2.ast import fpyast as A
from fpy2.ast.fpyast import ListTypeAnn, RealTypeAnn

from .. import core, gen_prog, progrun
from ..export import OutOfDomain, ctx_json
from ..export_prog import Unsupported, export_program, value_json

# formats with a wide exponent range: titanfp's overflow under the directed modes is not IEEE's (it returns an infinity where the
# largest finite number is due), so the comparison is kept away from overflow
CTXS = ['fp.IEEEContext(4, 8)', 'fp.IEEEContext(4, 8, fp.RM.RTZ)', 'fp.IEEEContext(4, 10)', 'fp.IEEEContext(4, 11, fp.RM.RTP)',
        'fp.IEEEContext(4, 9, fp.RM.RTN)', 'fp.IEEEContext(4, 11, fp.RM.RNE)', 'fp.IEEEContext(4, 7, fp.RM.RAZ)']
CONSTS = ['0.375', '3', '1.5', '2', '0.5', '5', '0.75', '1']


class G12:
    def __init__(self, rng, lists: bool):
        self.r = rng
        self.lists = lists
        self.nv = 0
        self.vars = ['x', 'y']

    def c(self):
        return f'fp.round({self.r.choice(CONSTS)})'

    def atom(self):
        r = self.r
        if r.random() < 0.3:
            return self.c()
        if self.lists and r.random() < 0.15:
            return f'xs[{r.randrange(3)}]'
        return r.choice(self.vars)

    def expr(self, d=0):
        r = self.r
        k = r.random()
        if d >= 2 or k < 0.25:
            return self.atom()
        if k < 0.75:
            return f'({self.expr(d + 1)} {r.choice(["+", "-", "*", "/"])} {self.expr(d + 1)})'
        if k < 0.8:
            return f'fp.sqrt(abs({self.expr(d + 1)}))'
        if k < 0.85:
            return f'(-{self.expr(d + 1)})'
        if k < 0.9:
            return f'fp.fma({self.atom()}, {self.atom()}, {self.atom()})'
        if k < 0.95:
            return f'{r.choice(["min", "max"])}({self.expr(d + 1)}, {self.expr(d + 1)})'
        if self.lists:
            return r.choice(['sum(xs)', 'max(xs)', 'min(xs)'])
        return self.atom()

    def new(self):
        self.nv += 1
        return f'v{self.nv}'

    def target(self):
        if self.r.random() < 0.5 and len(self.vars) > 2:
            return self.r.choice(self.vars[2:])
        return None

    def stmts(self, depth, ind, n):
        out = []
        for _ in range(n):
            out += self.stmt(depth, ind)
        return out

    def stmt(self, depth, ind):
        r = self.r
        pad = '    ' * ind
        k = r.random()
        if depth >= 2 or k < 0.45:
            t = self.target()
            if t is None:
                t = self.new()
                line = f'{pad}{t} = {self.expr()}'
                self.vars.append(t)
                return [line]
            return [f'{pad}{t} = {self.expr()}']
        if k < 0.7:
            body = self.stmts(depth + 1, ind + 1, r.randint(1, 3))
            return [f'{pad}with {r.choice(CTXS)}:'] + body
        if k < 0.82:
            # both arms assign the same (already bound) variable
            t = self.target() or r.choice(self.vars)
            cond = f'{self.atom()} {r.choice(["<", ">", "<=", ">="])} {self.atom()}'
            return [f'{pad}if {cond}:', f'{pad}    {t} = {self.expr()}', f'{pad}else:', f'{pad}    {t} = {self.expr()}']
        if k < 0.92:
            i = self.new()
            t = self.target() or r.choice(self.vars)
            return [f'{pad}{i} = fp.round(0)', f'{pad}while {i} < fp.round({r.randint(1, 3)}):', f'{pad}    {t} = {self.expr()}',
                    f'{pad}    {i} = {i} + fp.round(1)']
        t = self.target() or r.choice(self.vars)
        if self.lists and r.random() < 0.5:
            e = self.new()
            return [f'{pad}for {e} in xs:', f'{pad}    {t} = {t} + {e} * {self.atom()}']
        i = self.new()
        return [f'{pad}for {i} in range({r.randint(1, 3)}):', f'{pad}    {t} = {self.expr()}']

    def program(self, name):
        r = self.r
        body = []
        outer = r.random() < 0.5
        ind = 2 if outer else 1
        inner = self.stmts(0, ind, r.randint(2, 5))
        ret_vars = [v for v in self.vars if v not in ('x', 'y')][:3] or ['x']
        ret = ret_vars[0] if len(ret_vars) == 1 or r.random() < 0.5 else '(' + ', '.join(ret_vars) + ')'
        pad = '    ' * ind
        if r.random() < 0.4:
            retl = [f'{pad}return {ret}']
        else:
            retl = [f'{pad}return {self.expr()}']
        if outer:
            body = [f'    with {r.choice(CTXS)}:'] + inner + retl
        else:
            # the body starts under the caller's context: keep operations inside blocks, bind the result, return it
            body = inner + retl
        sig = 'x: fp.Real, y: fp.Real' + (', xs: list[fp.Real]' if self.lists else '')
        return '\n'.join(['@fp.fpy', f'def {name}({sig}):'] + body)


HAND = {
    'hand_after_inner': '''@fp.fpy
def hand_after_inner(x: fp.Real, y: fp.Real):
    with fp.IEEEContext(4, 8, fp.RM.RTZ):
        a = x * y
        with fp.IEEEContext(4, 8):
            b = a / fp.round(3)
        c = a - b
    return c''',
    'hand_sequential': '''@fp.fpy
def hand_sequential(x: fp.Real, y: fp.Real):
    with fp.IEEEContext(4, 10):
        a = x / fp.round(3)
    with fp.IEEEContext(4, 8, fp.RM.RTP):
        b = a * y + x
    with fp.IEEEContext(4, 9, fp.RM.RTN):
        c = b - a
    return (a, b, c)''',
    'hand_nested_rne': '''@fp.fpy
def hand_nested_rne(x: fp.Real, y: fp.Real):
    with fp.IEEEContext(4, 8, fp.RM.RTZ):
        a = x / y
        with fp.IEEEContext(4, 10):
            b = a / y + x
            with fp.IEEEContext(4, 9, fp.RM.RTP):
                c = b / fp.round(3)
                with fp.IEEEContext(4, 8):
                    return (a, b, c, c / y)''',
    'hand_nested_rne2': '''@fp.fpy
def hand_nested_rne2(x: fp.Real, y: fp.Real):
    with fp.IEEEContext(4, 10, fp.RM.RTN):
        if x > y:
            t = x / fp.round(3)
        else:
            t = y / fp.round(3)
        with fp.IEEEContext(4, 10):
            return t * t / fp.round(5)''',
    'hand_range_step': '''@fp.fpy
def hand_range_step(x: fp.Real, y: fp.Real):
    with fp.IEEEContext(4, 11):
        acc = fp.round(0)
        for i in range(0, 5, 2):
            acc = acc * fp.round(2) + i + x
        for j in range(1, 8, 3):
            acc = acc + j * y
        return acc''',
    'hand_range_down': '''@fp.fpy
def hand_range_down(x: fp.Real, y: fp.Real):
    with fp.IEEEContext(4, 11):
        acc = fp.round(0)
        for m in range(5, 0, -2):
            acc = acc * fp.round(2) + m + x
        for n in range(2, -3, -1):
            acc = acc + n * y
        return acc + y''',
    'hand_range_empty': '''@fp.fpy
def hand_range_empty(x: fp.Real, y: fp.Real):
    with fp.IEEEContext(4, 11):
        acc = fp.round(0)
        for q in range(0, 3, -1):
            acc = acc + fp.round(100)
        for r in range(3, 3, 1):
            acc = acc + fp.round(50)
        for s in range(4, 1):
            acc = acc + fp.round(25)
        return acc + y + x''',
    'hand_nested_tuple': '''@fp.fpy
def hand_nested_tuple(x: fp.Real, y: fp.Real):
    with fp.IEEEContext(4, 11):
        t = ((x, x + fp.round(1)), (y + fp.round(2), y + fp.round(3)))
        (a, b), (c, d) = t
        return (a * fp.round(2) + b, c * fp.round(3) + d, b - c)''',
    'hand_comp_tuple': '''@fp.fpy
def hand_comp_tuple(x: fp.Real, y: fp.Real, xs: list[fp.Real]):
    with fp.IEEEContext(4, 11):
        u = sum([a * fp.round(2) + b for a, b in zip(xs, xs)])
        v = sum([i * x + e for i, e in enumerate(xs)])
        acc = y
        for a, b in zip(xs, xs):
            acc = acc * fp.round(0.5) + a - b * x
        return (u, v, acc)''',
    'hand_comp_multi': '''@fp.fpy
def hand_comp_multi(x: fp.Real, y: fp.Real, xs: list[fp.Real]):
    with fp.IEEEContext(4, 11):
        u = sum([a * x + b for a in xs for b in xs])
        w = sum([a + b * y - c for a in xs for b in xs for c in xs])
        return (u, w)''',
    'hand_target_shadow': '''@fp.fpy
def hand_target_shadow(x: fp.Real, y: fp.Real, xs: list[fp.Real]):
    with fp.IEEEContext(4, 11):
        acc = fp.round(0)
        for x in xs:
            acc = acc + x
        return acc + x * y''',
    'hand_whole': '''@fp.fpy
def hand_whole(x: fp.Real, y: fp.Real):
    with fp.IEEEContext(4, 8):
        t = x
        i = fp.round(0)
        while i < fp.round(3):
            if t > fp.round(1):
                t = t / fp.round(2)
            else:
                t = t * fp.round(3) + y
            i = i + fp.round(1)
        return (t, i)''',
}


def after_with(fn) -> bool:
    """does some block continue, after a `with` statement, with something other than further `with` blocks and a return of variables?"""
    def plain(e):
        return isinstance(e, A.Var) or (isinstance(e, A.TupleExpr) and all(plain(x) for x in e.elts))

    def walk(block):
        seen = False
        for s in block.stmts:
            if isinstance(s, A.ContextStmt):
                if walk(s.body):
                    return True
                seen = True
                continue
            if seen and not (isinstance(s, A.ReturnStmt) and plain(s.expr)):
                return True
            for f in ('body', 'ift', 'iff'):
                b = getattr(s, f, None)
                if isinstance(b, A.StmtBlock) and walk(b):
                    return True
        return False
    return walk(fn.ast.body)


def from_titanfp(v, like):
    """titanfp value -> Python value shaped like the original result"""
    from titanfp.arithmetic.mpmf import MPMF
    if isinstance(like, bool) or isinstance(v, bool):
        return bool(v)
    if isinstance(like, (tuple, list)):
        items = [from_titanfp(v[i], like[i]) for i in range(len(like))]
        return tuple(items) if isinstance(like, tuple) else items
    if hasattr(v, 'isnan'):
        if v.isnan:
            return fp.Float(isnan=True)
        if v.isinf:
            return fp.Float(isinf=True, s=bool(v.negative))
        return fp.Float(s=bool(v.negative), c=int(v.c), exp=int(v.exp))
    raise Unsupported(f'titanfp value {type(v).__name__}')


def shape_like(v, like):
    if isinstance(like, tuple) and isinstance(v, (list, tuple)) and len(v) == len(like):
        return tuple(shape_like(a, b) for a, b in zip(v, like))
    if isinstance(like, list) and isinstance(v, (list, tuple)) and len(v) == len(like):
        return [shape_like(a, b) for a, b in zip(v, like)]
    return v


def to_mpmf(x):
    from titanfp.arithmetic.mpmf import MPMF
    if isinstance(x, list):
        return [to_mpmf(v) for v in x]
    f = x if isinstance(x, fp.Float) else fp.Float.from_float(float(x))
    return MPMF(negative=f.s, exp=f.exp, c=f.c, isinf=f.isinf, isnan=f.isnan)


VALS = [0.5, 1.0, 1.5, 2.0, 3.0, -0.75, 0.25, -2.0, 5.0, 0.0, 7.0, -1.25]


def record(job):
    seed, tier, k = job
    rng = random.Random(seed * 1511 + k)
    work = tempfile.mkdtemp(prefix='verif-c12-')
    out, stats = [], Counter()
    try:
        srcs = {}
        if k == 0:
            srcs.update(HAND)
        nprog = 10 if tier == 'quick' else 60
        for i in range(nprog):
            name = f'c12_{k}_{i}'
            srcs[name] = G12(rng, lists=(i % 3 == 2)).program(name)
        funcs, rej = gen_prog.load_programs(srcs, work, f'c12_{seed}_{k}')
        stats['rejected_by_front_end'] += len(rej)
        from titanfp.arithmetic.mpmf import Interpreter
        for name, f in funcs.items():
            src = srcs[name]
            lists = 'xs:' in src.split('def ' + name)[1].split('\n')[0]
            if lists:
                for arg in f.ast.args:
                    if isinstance(arg.type, ListTypeAnn):
                        arg.type = ListTypeAnn(RealTypeAnn(None, None), 3, None)
            try:
                prog, _ = export_program(f, 0)
            except (Unsupported, OutOfDomain):
                stats['unsupported-by-machine'] += 1
                continue
            try:
                corec = FPCoreCompiler(unsafe_int_cast=True).compile(f)
            except Exception as e:      # noqa: BLE001
                stats[f'fpcore-refused:{type(e).__name__}'] += 1
                continue
            try:
                g = fp.Function.from_fpcore(corec)
            except Exception as e:      # noqa: BLE001
                g = None
                stats[f'reread-failed:{type(e).__name__}'] += 1
            shape = after_with(f)
            ins = {'fpy': [], 'titanfp': [], 'reread': []}
            for i in range(14 if tier == 'quick' else 40):
                args = [rng.choice(VALS), rng.choice(VALS)] + ([[rng.choice(VALS) for _ in range(3)]] if lists else [])
                try:
                    aj = [value_json(a) for a in args]
                except (OutOfDomain, Unsupported):
                    continue
                o = progrun.run_real(f, args, None)
                if 'ood' in o:
                    continue
                ins['fpy'].append({'args': aj, 'ctx': [], 'out': o})
                like = None
                try:
                    like = f(*[list(a) if isinstance(a, list) else a for a in args])
                except Exception:       # noqa: BLE001
                    pass
                # titanfp on the compiled core
                try:
                    t = Interpreter().interpret(corec, [to_mpmf(a) for a in args])
                    to = {'val': value_json(from_titanfp(t, like))} if like is not None else None
                except (OutOfDomain, Unsupported):
                    to = None
                except Exception as e:      # noqa: BLE001
                    if type(e).__name__ == 'ShapeError' and 'shape [0' in str(e):
                        # the reference evaluator cannot build a tensor with no elements: `(tensor ([i 0]) i)` alone raises this
                        stats['titanfp-cannot-build-an-empty-tensor'] += 1
                        to = None
                    else:
                        to = {'err': type(e).__name__}
                if to is not None:
                    ins['titanfp'].append({'args': aj, 'ctx': [], 'out': to})
                if g is not None:
                    try:
                        rr = g(*[list(a) if isinstance(a, list) else a for a in args])
                        ro = {'val': value_json(shape_like(rr, like))}
                    except (OutOfDomain, Unsupported):
                        ro = None
                    except Exception as e:      # noqa: BLE001
                        ro = {'err': type(e).__name__}
                    if ro is not None:
                        ins['reread'].append({'args': aj, 'ctx': [], 'out': ro})
            for kind, lst in ins.items():
                if not lst:
                    continue
                p = dict(prog)
                p['inputs'] = lst
                p['src'] = src
                p['kind'] = kind
                p['name'] = name
                p['shape'] = shape
                p['core'] = str(corec.sexp)[:1500]
                out.append(p)
    finally:
        shutil.rmtree(work, ignore_errors=True)
    return out, stats


def run(tier: str) -> int:
    rep = core.Report('C12', tier)
    stats = Counter()
    jobs = [(core.seed(), tier, k) for k in range(4 if tier == 'quick' else 12)]
    res = core.pool_map(record, jobs, chunksize=1)
    progs = []
    for ps, st in res:
        stats.update(st)
        for p in ps:
            p['pid'] = len(progs)
            progs.append(p)
    send = [{k: v for k, v in p.items() if k not in ('kind', 'name', 'shape', 'core')} for p in progs]
    mm, skips, gen, dis = progrun.run_machine(send)
    rep.add_tlc(gen, dis)
    byp = {p['pid']: p for p in progs}
    mm, skips = progrun.split_big(byp, mm, skips)
    def has_inf(j):
        if isinstance(j, dict):
            return j.get('k') in ('inf', 'nan') or any(has_inf(v) for v in j.values())      # (a NaN downstream of that infinity: inf / inf)
        if isinstance(j, list):
            return any(has_inf(v) for v in j)
        return False
    for (pid, idx, clause, merr) in mm:
        p = byp[pid]
        if p['kind'] == 'titanfp' and clause == 'value' and has_inf(p['inputs'][idx - 1]['out']) and any(m in p['src'] for m in ('RTZ', 'RTP', 'RTN', 'RAZ')):
            stats['titanfp-overflow-under-a-directed-mode-not-judged'] += 1
            continue
        key = {'clause': clause, 'kind': p['kind']}
        if p['kind'] in ('titanfp', 'reread') and p['name'] == 'hand_target_shadow':
            key['shape'] = 'loop-target-shadows-a-variable-read-after-the-loop'
        elif p['kind'] in ('titanfp', 'reread') and p['shape']:
            key['shape'] = 'operations-after-a-with-block'
        rep.mismatch(key, {'program': p['src'], 'kind': p['kind'], 'input': p['inputs'][idx - 1], 'clause': clause, 'machine_error': merr,
                           'core': p['core']})
    runs = Counter()
    for p in progs:
        runs[p['kind']] += len(p['inputs'])
    skipc = Counter(s[3] for s in skips)
    rep.cov.update({'programs': len({p['name'] for p in progs}), 'evaluations': sum(runs.values()),
                    'traces_validated_against_impl': sum(runs.values()) - sum(skipc.values()), 'runs_by_kind': dict(runs),
                    'distinct_nontrivial': len({p['name'] for p in progs if p['kind'] != 'fpy'}),
                    'programs_with_operations_after_a_with_block': len({p['name'] for p in progs if p['shape']}),
                    'skipped_by_reason': dict(skipc), 'not_run': dict(stats),
                    'rule': 'hand + generated programs of the FPCore-expressible subset x argument vectors; the machine outcome on the original AST is the '
                            'expectation for the real interpreter, for titanfp on the compiled core and for the re-read function'})
    for p in progs[:2]:
        rep.sample({'program': p['src'], 'kind': p['kind'], 'core': p['core'][:400]})
    return rep.finish()


def replay(path: str) -> int:
    import json
    print(json.dumps(json.loads(open(path).read()), indent=1)[:4000])
    return 0
