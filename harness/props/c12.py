"""
C12 -- Translation to and from FPCore preserves meaning.

Programs of the FPCore-expressible subset (explicitly rounded constants, sequential and nested `with` blocks with statements
after an inner block, if / while / for, tuples, fixed-size lists, reductions) are generated as source text.  The abstract machine
(spec/FPyMachine.tla) runs the REAL front-end AST on every argument vector; its outcome is the expected one, and TLC judges
three observed outcomes against it in the same run (MCMachine!Judge):
  fpy      the real interpreter on the original function (as in C04),
  titanfp  the reference FPCore evaluator on FPCoreCompiler().compile(f),
  reread   the real interpreter on Function.from_fpcore(compile(f)).
"""
from __future__ import annotations

import random
import shutil
import tempfile
from collections import Counter

import fpy2 as fp
from fpy2 import FPCoreCompiler
from fpy2.ast import fpyast as A
from fpy2.ast.fpyast import ListTypeAnn, RealTypeAnn

from .. import core, gen_prog, progrun
from ..export import OutOfDomain, ctx_json
from ..export_prog import Unsupported, export_program, value_json

# formats with a wide exponent range: titanfp's overflow under the directed modes is not IEEE's (it returns an infinity where the
# largest finite number is due), so the comparison is kept away from overflow
CTXS = ['fp.IEEEContext(4, 8)', 'fp.IEEEContext(4, 8, fp.RM.RTZ)', 'fp.IEEEContext(4, 10)', 'fp.IEEEContext(4, 11, fp.RM.RTP)',
        'fp.IEEEContext(4, 9, fp.RM.RTN)', 'fp.IEEEContext(4, 11, fp.RM.RNE)', 'fp.IEEEContext(4, 7, fp.RM.RAZ)']
CONSTS = ['0.375', '3', '1.5', '2', '0.5', '5', '0.75', '1']


class G12:
    def __init__(self, rng, lists: bool):
        self.r = rng
        self.lists = lists
        self.nv = 0
        self.vars = ['x', 'y']

    def c(self):
        return f'fp.round({self.r.choice(CONSTS)})'

    def atom(self):
        r = self.r
        if r.random() < 0.3:
            return self.c()
        if self.lists and r.random() < 0.15:
            return f'xs[{r.randrange(3)}]'
        return r.choice(self.vars)

    def expr(self, d=0):
        r = self.r
        k = r.random()
        if d >= 2 or k < 0.25:
            return self.atom()
        if k < 0.75:
            return f'({self.expr(d + 1)} {r.choice(["+", "-", "*", "/"])} {self.expr(d + 1)})'
        if k < 0.8:
            return f'fp.sqrt(abs({self.expr(d + 1)}))'
        if k < 0.85:
            return f'(-{self.expr(d + 1)})'
        if k < 0.9:
            return f'fp.fma({self.atom()}, {self.atom()}, {self.atom()})'
        if k < 0.95:
            return f'{r.choice(["min", "max"])}({self.expr(d + 1)}, {self.expr(d + 1)})'
        if self.lists:
            return r.choice(['sum(xs)', 'max(xs)', 'min(xs)'])
        return self.atom()

    def new(self):
        self.nv += 1
        return f'v{self.nv}'

    def target(self):
        if self.r.random() < 0.5 and len(self.vars) > 2:
            return self.r.choice(self.vars[2:])
        return None

    def stmts(self, depth, ind, n):
        out = []
        for _ in range(n):
            out += self.stmt(depth, ind)
        return out

    def stmt(self, depth, ind):
        r = self.r
        pad = '    ' * ind
        k = r.random()
        if depth >= 2 or k < 0.45:
            t = self.target()
            if t is None:
                t = self.new()
                line = f'{pad}{t} = {self.expr()}'
                self.vars.append(t)
                return [line]
            return [f'{pad}{t} = {self.expr()}']
        if k < 0.7:
            body = self.stmts(depth + 1, ind + 1, r.randint(1, 3))
            return [f'{pad}with {r.choice(CTXS)}:'] + body
        if k < 0.82:
            # both arms assign the same (already bound) variable
            t = self.target() or r.choice(self.vars)
            cond = f'{self.atom()} {r.choice(["<", ">", "<=", ">="])} {self.atom()}'
            return [f'{pad}if {cond}:', f'{pad}    {t} = {self.expr()}', f'{pad}else:', f'{pad}    {t} = {self.expr()}']
        if k < 0.92:
            i = self.new()
            t = self.target() or r.choice(self.vars)
            return [f'{pad}{i} = fp.round(0)', f'{pad}while {i} < fp.round({r.randint(1, 3)}):', f'{pad}    {t} = {self.expr()}',
                    f'{pad}    {i} = {i} + fp.round(1)']
        t = self.target() or r.choice(self.vars)
        if self.lists and r.random() < 0.5:
            e = self.new()
            return [f'{pad}for {e} in xs:', f'{pad}    {t} = {t} + {e} * {self.atom()}']
        i = self.new()
        return [f'{pad}for {i} in range({r.randint(1, 3)}):', f'{pad}    {t} = {self.expr()}']

    def program(self, name):
        r = self.r
        body = []
        outer = r.random() < 0.5
        ind = 2 if outer else 1
        inner = self.stmts(0, ind, r.randint(2, 5))
        ret_vars = [v for v in self.vars if v not in ('x', 'y')][:3] or ['x']
        ret = ret_vars[0] if len(ret_vars) == 1 or r.random() < 0.5 else '(' + ', '.join(ret_vars) + ')'
        pad = '    ' * ind
        if r.random() < 0.4:
            retl = [f'{pad}return {ret}']
        else:
            retl = [f'{pad}return {self.expr()}']
        if outer:
            body = [f'    with {r.choice(CTXS)}:'] + inner + retl
        else:
            # the body starts under the caller's context: keep operations inside blocks, bind the result, return it
            body = inner + retl
        sig = 'x: fp.Real, y: fp.Real' + (', xs: list[fp.Real]' if self.lists else '')
        return '\n'.join(['@fp.fpy', f'def {name}({sig}):'] + body)


HAND = {
    'hand_after_inner': '''@fp.fpy
def hand_after_inner(x: fp.Real, y: fp.Real):
    with fp.IEEEContext(4, 8, fp.RM.RTZ):
        a = x * y
        with fp.IEEEContext(4, 8):
            b = a / fp.round(3)
        c = a - b
    return c''',
    'hand_sequential': '''@fp.fpy
def hand_sequential(x: fp.Real, y: fp.Real):
    with fp.IEEEContext(4, 10):
        a = x / fp.round(3)
    with fp.IEEEContext(4, 8, fp.RM.RTP):
        b = a * y + x
    with fp.IEEEContext(4, 9, fp.RM.RTN):
        c = b - a
    return (a, b, c)''',
    'hand_nested_rne': '''@fp.fpy
def hand_nested_rne(x: fp.Real, y: fp.Real):
    with fp.IEEEContext(4, 8, fp.RM.RTZ):
        a = x / y
        with fp.IEEEContext(4, 10):
            b = a / y + x
            with fp.IEEEContext(4, 9, fp.RM.RTP):
                c = b / fp.round(3)
                with fp.IEEEContext(4, 8):
                    return (a, b, c, c / y)''',
    'hand_nested_rne2': '''@fp.fpy
def hand_nested_rne2(x: fp.Real, y: fp.Real):
    with fp.IEEEContext(4, 10, fp.RM.RTN):
        if x > y:
            t = x / fp.round(3)
        else:
            t = y / fp.round(3)
        with fp.IEEEContext(4, 10):
            return t * t / fp.round(5)''',
    'hand_swap': '''@fp.fpy
def hand_swap(x: fp.Real, y: fp.Real):
    with fp.IEEEContext(4, 11):
        a = x / fp.round(3)
        b = y
        a, b = b, a + b
        a, b = b, a
        c, d = a - b, a * b
        return (a, b, c, d)''',
    'hand_wide_literal': '''@fp.fpy
def hand_wide_literal(x: fp.Real, y: fp.Real):
    with fp.IEEEContext(4, 10):
        a = x + fp.round(131)
        b = fp.round(67) * fp.round(3)
        c = y - fp.round(1000)
        return (a, b, c)''',
    'hand_ne_chain': '''@fp.fpy
def hand_ne_chain(x: fp.Real, y: fp.Real):
    with fp.IEEEContext(4, 11):
        a = fp.round(1) if x != y != x else fp.round(0)
        b = fp.round(1) if x < y <= y else fp.round(0)
        c = fp.round(1) if x == y == x else fp.round(0)
        return (a, b, c)''',
    'hand_fixed_scope': '''@fp.fpy
def hand_fixed_scope(x: fp.Real, y: fp.Real):
    with fp.FixedContext(True, -4, 8, fp.RM.RTZ, fp.OV.SATURATE):
        a = x * y
    with fp.INTEGER:
        c = x * y
    with fp.FixedContext(True, 2, 5, fp.RM.RNE, fp.OV.SATURATE):
        d = x * y * fp.round(16)
    return (a, c, d)''',
    # (round toward zero: at an exact tie the reference evaluator's ':precision integer :round nearestEven' goes toward zero, 1.5 -> 1)
    'hand_mpfixed_negzero': '''@fp.fpy
def hand_mpfixed_negzero(x: fp.Real, y: fp.Real):
    with fp.MPFixedContext(-1, fp.RM.RTZ):
        c = x * y
    return c''',
    'hand_mpfixed_scope': '''@fp.fpy
def hand_mpfixed_scope(x: fp.Real, y: fp.Real):
    with fp.MPFixedContext(-3, fp.RM.RTZ):
        b = x * y
    return b''',
    'hand_range_step': '''@fp.fpy
def hand_range_step(x: fp.Real, y: fp.Real):
    with fp.IEEEContext(4, 11):
        acc = fp.round(0)
        for i in range(0, 5, 2):
            acc = acc * fp.round(2) + i + x
        for j in range(1, 8, 3):
            acc = acc + j * y
        return acc''',
    'hand_range_down': '''@fp.fpy
def hand_range_down(x: fp.Real, y: fp.Real):
    with fp.IEEEContext(4, 11):
        acc = fp.round(0)
        for m in range(5, 0, -2):
            acc = acc * fp.round(2) + m + x
        for n in range(2, -3, -1):
            acc = acc + n * y
        return acc + y''',
    'hand_range_empty': '''@fp.fpy
def hand_range_empty(x: fp.Real, y: fp.Real):
    with fp.IEEEContext(4, 11):
        acc = fp.round(0)
        for q in range(0, 3, -1):
            acc = acc + fp.round(100)
        for r in range(3, 3, 1):
            acc = acc + fp.round(50)
        for s in range(4, 1):
            acc = acc + fp.round(25)
        return acc + y + x''',
    'hand_nested_tuple': '''@fp.fpy
def hand_nested_tuple(x: fp.Real, y: fp.Real):
    with fp.IEEEContext(4, 11):
        t = ((x, x + fp.round(1)), (y + fp.round(2), y + fp.round(3)))
        (a, b), (c, d) = t
        return (a * fp.round(2) + b, c * fp.round(3) + d, b - c)''',
    'hand_comp_tuple': '''@fp.fpy
def hand_comp_tuple(x: fp.Real, y: fp.Real, xs: list[fp.Real]):
    with fp.IEEEContext(4, 11):
        u = sum([a * fp.round(2) + b for a, b in zip(xs, xs)])
        v = sum([i * x + e for i, e in enumerate(xs)])
        acc = y
        for a, b in zip(xs, xs):
            acc = acc * fp.round(0.5) + a - b * x
        return (u, v, acc)''',
    'hand_comp_multi': '''@fp.fpy
def hand_comp_multi(x: fp.Real, y: fp.Real, xs: list[fp.Real]):
    with fp.IEEEContext(4, 11):
        u = sum([a * x + b for a in xs for b in xs])
        w = sum([a + b * y - c for a in xs for b in xs for c in xs])
        return (u, w)''',
    'hand_target_shadow': '''@fp.fpy
def hand_target_shadow(x: fp.Real, y: fp.Real, xs: list[fp.Real]):
    with fp.IEEEContext(4, 11):
        acc = fp.round(0)
        for x in xs:
            acc = acc + x
        return acc + x * y''',
    'hand_carried_pair': '''@fp.fpy
def hand_carried_pair(x: fp.Real, y: fp.Real):
    with fp.IEEEContext(4, 8):
        i = fp.round(0)
        acc = fp.round(1)
        while i < x:
            i = i + fp.round(1)
            acc = acc * i + y
        a = fp.round(0)
        b = fp.round(1)
        for k in range(3):
            a = a + fp.round(1)
            b = b * a + x
        return (acc, i, a, b)''',
    'hand_whole': '''@fp.fpy
def hand_whole(x: fp.Real, y: fp.Real):
    with fp.IEEEContext(4, 8):
        t = x
        i = fp.round(0)
        while i < fp.round(3):
            if t > fp.round(1):
                t = t / fp.round(2)
            else:
                t = t * fp.round(3) + y
            i = i + fp.round(1)
        return (t, i)''',
}


def after_with(fn) -> bool:
    """does some block continue, after a `with` statement, with something other than further `with` blocks and a return of variables?"""
    def plain(e):
        return isinstance(e, A.Var) or (isinstance(e, A.TupleExpr) and all(plain(x) for x in e.elts))

    def walk(block):
        seen = False
        for s in block.stmts:
            if isinstance(s, A.ContextStmt):
                if walk(s.body):
                    return True
                seen = True
                continue
            if seen and not (isinstance(s, A.ReturnStmt) and plain(s.expr)):
                return True
            for f in ('body', 'ift', 'iff'):
                b = getattr(s, f, None)
                if isinstance(b, A.StmtBlock) and walk(b):
                    return True
        return False
    return walk(fn.ast.body)


def from_titanfp(v, like):
    """titanfp value -> Python value shaped like the original result"""
    from titanfp.arithmetic.mpmf import MPMF
    if isinstance(like, bool) or isinstance(v, bool):
        return bool(v)
    if isinstance(like, (tuple, list)):
        items = [from_titanfp(v[i], like[i]) for i in range(len(like))]
        return tuple(items) if isinstance(like, tuple) else items
    if hasattr(v, 'isnan'):
        if v.isnan:
            return fp.Float(isnan=True)
        if v.isinf:
            return fp.Float(isinf=True, s=bool(v.negative))
        return fp.Float(s=bool(v.negative), c=int(v.c), exp=int(v.exp))
    raise Unsupported(f'titanfp value {type(v).__name__}')


def shape_like(v, like):
    if isinstance(like, tuple) and isinstance(v, (list, tuple)) and len(v) == len(like):
        return tuple(shape_like(a, b) for a, b in zip(v, like))
    if isinstance(like, list) and isinstance(v, (list, tuple)) and len(v) == len(like):
        return [shape_like(a, b) for a, b in zip(v, like)]
    return v


# Hand-written cores for the reader (FPCore -> FPy): "reading an FPCore back into FPy gives a function that evaluates to the same
# results as the core".  The reference evaluator's outcome and the re-read function's outcome are a pair judged by spec/Agree.tla.
G = [0.5, 1.0, 1.099609375, 2.298828125, -0.75, 3.0, 0.0, 5.0]
CORES = {
    'inner_round_only': ('(FPCore (x) :precision binary16 (let ([y (! :round toZero (* x x))]) y))', [(v,) for v in G]),
    'inner_round_in_op': ('(FPCore (x y) (! :precision binary16 (+ x (! :round toPositive (* x y)))))', [(a, b) for a in G[:5] for b in G[2:6]]),
    'inner_round_in_if': ('(FPCore (x y) :precision binary16 (if (< x y) (! :round toNegative (/ x y)) (! :round toPositive (/ y 3))))',
                          [(a, b) for a in G[:5] for b in (1.099609375, 3.0, 7.0)]),
    'inner_prec_only': ('(FPCore (x y) :round toZero (+ (! :precision binary16 (* x y)) (! :precision binary32 (/ x 3))))',
                        [(a, b) for a in G[:5] for b in G[2:5]]),
    'props_in_while': ('(FPCore (x) :precision binary16 (while (< i 3) ([i 0 (+ i 1)] [a x (! :round toZero (/ a 3))]) a))', [(v,) for v in G]),
    'props_in_for': ('(FPCore (x) :precision binary16 (for ([i 3]) ([a x (! :round toPositive (/ a 3))]) a))', [(v,) for v in G]),
    'props_in_tensor': ('(FPCore (x) :precision binary16 (ref (tensor ([i 3]) (! :round toZero (/ x (+ i 3)))) 1))', [(v,) for v in G]),
    'while_cond_if': ('(FPCore (n) (while (< (if (< i 2) i (* i 2)) n) ([i 0 (+ i 1)]) i))', [(5.0,), (1.0,), (3.0,), (0.0,)]),
    'while_cond_let': ('(FPCore (n) (while (let ([j (+ i 1)]) (< j n)) ([i 0 (+ i 1)]) i))', [(5.0,), (1.0,), (3.0,)]),
    'while_cond_fmax': ('(FPCore (x n) (while (< (fmax i x) n) ([i 0 (+ i 1)]) i))', [(1.0, 4.0), (0.0, 3.0), (5.0, 4.0)]),
    'fmin_nan': ('(FPCore (x y) (fmin x y))', [(float('nan'), 1.0), (1.0, float('nan')), (2.0, 1.0), (-0.0, 0.0)]),
    # (no fmax(-0, +0): C leaves the sign open and the reference evaluator answers -0)
    'fmax_nan': ('(FPCore (x y) (fmax x y))', [(float('nan'), 1.0), (1.0, float('nan')), (2.0, 1.0), (-3.0, -1.0)]),
    'neq_nary': ('(FPCore (x y z) (if (!= x y z) 1 0))', [(1.0, 2.0, 1.0), (1.0, 2.0, 3.0), (1.0, 1.0, 2.0), (2.0, 1.0, 1.0)]),
    'lt_nary': ('(FPCore (x y z) (if (< x y z) 1 0))', [(1.0, 2.0, 3.0), (1.0, 3.0, 2.0), (2.0, 1.0, 3.0)]),
    'eq_nary': ('(FPCore (x y z) (if (== x y z) 1 0))', [(1.0, 1.0, 1.0), (1.0, 1.0, 2.0), (0.0, -0.0, 0.0)]),
    'let_parallel': ('(FPCore (x y) (let ([x y] [y x]) (- x y)))', [(1.0, 3.0), (5.0, 0.5)]),
    'let_sequential': ('(FPCore (x y) (let* ([x y] [y x]) (- x y)))', [(1.0, 3.0), (5.0, 0.5)]),
    'while_parallel': ('(FPCore (n) (while (< i n) ([i 0 (+ i 1)] [s 0 (+ s i)]) s))', [(4.0,), (0.0,), (1.0,)]),
    'while_sequential': ('(FPCore (n) (while* (< i n) ([i 0 (+ i 1)] [s 0 (+ s i)]) s))', [(4.0,), (0.0,), (1.0,)]),
    'for_parallel': ('(FPCore (x) (for ([i 4]) ([a x b] [b 1 (+ a b)]) (- a b)))', [(1.0,), (3.0,)]),
    # an <init> that names a variable an earlier binding of the same loop re-binds: `for` / `while` / `let` read the outer one
    'for_parallel_init': ('(FPCore (a b) (for ([i 2]) ([a b (+ a b)] [b a b]) (- a b)))', [(3.0, 5.0), (1.0, 0.5), (4.0, 4.0)]),
    'for_sequential_init': ('(FPCore (a b) (for* ([i 2]) ([a b (+ a b)] [b a b]) (- a b)))', [(3.0, 5.0), (1.0, 0.5), (4.0, 4.0)]),
    'for_parallel_init0': ('(FPCore (x) (for ([i 0]) ([x 1 (+ x 1)] [y x (+ y x)]) y))', [(10.0,), (1.0,)]),
    'while_parallel_init': ('(FPCore (a b) (while (< i 2) ([i 0 (+ i 1)] [a b (+ a b)] [b a b]) (- a b)))', [(3.0, 5.0), (1.0, 0.5)]),
    'while_sequential_init': ('(FPCore (a b) (while* (< i 2) ([i 0 (+ i 1)] [a b (+ a b)] [b a b]) (- a b)))', [(3.0, 5.0), (1.0, 0.5)]),
    'for_sequential': ('(FPCore (x) (for* ([i 4]) ([a x b] [b 1 (+ a b)]) (- a b)))', [(1.0,), (3.0,)]),
    'tensor_star': ('(FPCore (x) (ref (tensor* ([i 3]) ([a x (* a 2)] [b a (+ b a)]) (+ a b)) 2))', [(1.0,), (0.5,)]),
    'tensor_2d': ('(FPCore (x) (ref (tensor ([i 2] [j 3]) (+ (* i 3) (* j x))) 1 2))', [(1.0,), (0.5,)]),
    'size_dim': ('(FPCore (x) (+ (size (tensor ([i 2] [j 3]) x) 1) (dim (tensor ([i 2] [j 3]) x))))', [(1.0,)]),
    'cast_narrow': ('(FPCore (x) :precision binary64 (+ (! :precision binary16 (cast x)) 1))', [(1.099609375 + 2 ** -20,), (70000.0,), (1e-9,)]),
    'constants': ('(FPCore (x) :precision binary32 (+ (* x PI) (- E LN2)))', [(1.0,), (0.5,)]),
    'specials': ('(FPCore (x) (if (> x 1) INFINITY (if (< x 0) NAN (- 0 x))))', [(2.0,), (-1.0,), (0.0,), (0.5,)]),
    'rational_lits': ('(FPCore (x) :precision binary16 (+ (* x 1/3) (- 0x1.8p1 (digits 3 -1 2))))', [(1.0,), (3.0,)]),
    'int_literal_wide': ('(FPCore (x) :precision binary16 (let ([s 2051]) (* s x)))', [(1.0,), (3.0,)]),
    'bool_ops': ('(FPCore (x y) (if (and (or (< x y) (not (== x y))) TRUE) (fabs x) (copysign y x)))', [(1.0, 2.0), (2.0, 1.0), (1.0, 1.0), (-1.0, -1.0)]),
    'math_ops': ('(FPCore (x y) :precision binary32 (+ (fma x y 1) (- (sqrt (fabs x)) (fdim x y))))', [(1.0, 2.0), (2.5, 1.5), (-4.0, 0.5)]),
    # (no nearbyint: the reference evaluator truncates, nearbyint(1.75) = 1)
    'round_ops': ('(FPCore (x) (+ (floor x) (+ (ceil x) (+ (trunc x) (round x)))))', [(2.5,), (-2.5,), (0.5,), (1.75,), (-0.25,)]),
}


def titan_json(v):
    from titanfp.arithmetic.mpmf import MPMF
    if isinstance(v, bool):
        return {'k': 'bool', 'b': v}
    if isinstance(v, MPMF):
        return value_json(fp.Float(s=bool(v.negative), exp=int(v.exp), c=int(v.c), isinf=bool(v.isinf), isnan=bool(v.isnan))
                          if not (v.isinf or v.isnan) else (float('nan') if v.isnan else (float('-inf') if v.negative else float('inf'))))
    if isinstance(v, (list, tuple)) or hasattr(v, '__iter__'):
        return {'k': 'list', 'v': [titan_json(x) for x in v]}
    raise Unsupported(f'titanfp value {type(v).__name__}')


def listify(j):
    """tuples of the re-read function are the core's arrays"""
    if isinstance(j, dict) and j.get('k') == 'tuple':
        return {'k': 'list', 'v': [listify(x) for x in j['v']]}
    if isinstance(j, dict) and j.get('k') == 'list':
        return {'k': 'list', 'v': [listify(x) for x in j['v']]}
    return j


def record_cores(stats):
    from titanfp.arithmetic.mpmf import Interpreter
    from titanfp.fpbench import fpcparser
    recs = []
    for name, (src, grid) in CORES.items():
        try:
            core_ = fpcparser.compile1(src)
        except Exception as e:      # noqa: BLE001
            raise core.MachineryError(f'hand-written core {name} does not parse: {e}')
        try:
            g = fp.Function.from_fpcore(core_)
        except Exception as e:      # noqa: BLE001
            stats[f'reader-refused:{name}:{type(e).__name__}'] += 1
            continue
        for args in grid:
            try:
                t = Interpreter().interpret(core_, [to_mpmf(a) for a in args])
                a_ = {'val': titan_json(t)}
            except (OutOfDomain, Unsupported):
                continue
            except Exception as e:      # noqa: BLE001
                stats[f'titanfp-raised:{name}:{type(e).__name__}'] += 1
                continue
            b_ = progrun._run_real_once(g, list(args), None, 4)       # no retry: a re-read loop that never ends is one of the findings
            if 'ood' in b_:
                continue
            if 'val' in b_:
                b_ = {'val': listify(b_['val'])}
            recs.append({'core': name, 'src': src, 'args': repr(args), 'a': a_, 'b': b_})
    return recs


def to_mpmf(x):
    from titanfp.arithmetic.mpmf import MPMF
    if isinstance(x, list):
        return [to_mpmf(v) for v in x]
    f = x if isinstance(x, fp.Float) else fp.Float.from_float(float(x))
    return MPMF(negative=f.s, exp=f.exp, c=f.c, isinf=f.isinf, isnan=f.isnan)


VALS = [0.5, 1.0, 1.5, 2.0, 3.0, -0.75, 0.25, -2.0, 5.0, 0.0, 7.0, -1.25]


def record(job):
    seed, tier, k = job
    rng = random.Random(seed * 1511 + k)
    work = tempfile.mkdtemp(prefix='verif-c12-')
    out, stats = [], Counter()
    try:
        srcs = {}
        if k == 0:
            srcs.update(HAND)
        nprog = 10 if tier == 'quick' else 60
        for i in range(nprog):
            name = f'c12_{k}_{i}'
            srcs[name] = G12(rng, lists=(i % 3 == 2)).program(name)
        funcs, rej = gen_prog.load_programs(srcs, work, f'c12_{seed}_{k}')
        stats['rejected_by_front_end'] += len(rej)
        from titanfp.arithmetic.mpmf import Interpreter
        for name, f in funcs.items():
            src = srcs[name]
            lists = 'xs:' in src.split('def ' + name)[1].split('\n')[0]
            if lists:
                for arg in f.ast.args:
                    if isinstance(arg.type, ListTypeAnn):
                        arg.type = ListTypeAnn(RealTypeAnn(None, None), 3, None)
            try:
                prog, _ = export_program(f, 0)
            except (Unsupported, OutOfDomain):
                stats['unsupported-by-machine'] += 1
                continue
            try:
                corec = FPCoreCompiler(unsafe_int_cast=True).compile(f)
            except Exception as e:      # noqa: BLE001
                stats[f'fpcore-refused:{type(e).__name__}'] += 1
                continue
            try:
                g = fp.Function.from_fpcore(corec)
            except Exception as e:      # noqa: BLE001
                g = None
                stats[f'reread-failed:{type(e).__name__}'] += 1
            shape = after_with(f)
            ins = {'fpy': [], 'titanfp': [], 'reread': []}
            for i in range(14 if tier == 'quick' else 40):
                args = [rng.choice(VALS), rng.choice(VALS)] + ([[rng.choice(VALS) for _ in range(3)]] if lists else [])
                try:
                    aj = [value_json(a) for a in args]
                except (OutOfDomain, Unsupported):
                    continue
                o = progrun.run_real(f, args, None)
                if 'ood' in o:
                    continue
                ins['fpy'].append({'args': aj, 'ctx': [], 'out': o})
                like = None
                try:
                    like = f(*[list(a) if isinstance(a, list) else a for a in args])
                except Exception:       # noqa: BLE001
                    pass
                # titanfp on the compiled core
                try:
                    t = Interpreter().interpret(corec, [to_mpmf(a) for a in args])
                    to = {'val': value_json(from_titanfp(t, like))} if like is not None else None
                except (OutOfDomain, Unsupported):
                    to = None
                except Exception as e:      # noqa: BLE001
                    if isinstance(e, ValueError) and 'unsupported overflow mode' in str(e):
                        # the reference evaluator knows one overflow rule for fixed point (infinity), not clamp / wrap
                        stats['titanfp-does-not-know-the-overflow-mode'] += 1
                        to = None
                    elif type(e).__name__ == 'ShapeError' and 'shape [0' in str(e):
                        # the reference evaluator cannot build a tensor with no elements: `(tensor ([i 0]) i)` alone raises this
                        stats['titanfp-cannot-build-an-empty-tensor'] += 1
                        to = None
                    else:
                        to = {'err': type(e).__name__}
                if to is not None:
                    ins['titanfp'].append({'args': aj, 'ctx': [], 'out': to})
                if g is not None:
                    try:
                        rr = g(*[list(a) if isinstance(a, list) else a for a in args])
                        ro = {'val': value_json(shape_like(rr, like))}
                    except (OutOfDomain, Unsupported):
                        ro = None
                    except Exception as e:      # noqa: BLE001
                        ro = {'err': type(e).__name__}
                    if ro is not None:
                        ins['reread'].append({'args': aj, 'ctx': [], 'out': ro})
            for kind, lst in ins.items():
                if not lst:
                    continue
                p = dict(prog)
                p['inputs'] = lst
                p['src'] = src
                p['kind'] = kind
                p['name'] = name
                p['shape'] = shape
                p['core'] = str(corec.sexp)[:1500]
                out.append(p)
    finally:
        shutil.rmtree(work, ignore_errors=True)
    return out, stats


def nest_after_with(prog: dict) -> dict:
    """The known defect of the FPCore backend written out as a program: every statement that follows a `with` block in its own block is
    moved to the end of that block's body (the backend hands the compiled continuation to the body).  What the reference evaluator and
    the re-read function return for a program of that shape is compared with the machine's run of THIS program too: agreeing with it is
    the known finding, differing from it as well is something else."""
    import copy
    q = copy.deepcopy(prog)
    for fn in q['funcs'].values():
        blocks = fn['blocks']

        def fix(bid):
            blk = blocks[bid - 1]
            i = 0
            while i < len(blk):
                st = blk[i]
                if st['k'] == 'With':
                    tail = blk[i + 1:]
                    if tail:
                        blocks[st['b'] - 1].extend(tail)
                        del blk[i + 1:]
                    fix(st['b'])
                elif st['k'] == 'If':
                    fix(st['t'])
                    fix(st['f'])
                elif st['k'] == 'If1':
                    fix(st['t'])
                elif st['k'] in ('While', 'For'):
                    fix(st['b'])
                i += 1
        fix(1)
    return q


NESTED = 100000


def run(tier: str) -> int:
    rep = core.Report('C12', tier)
    stats = Counter()
    jobs = [(core.seed(), tier, k) for k in range(4 if tier == 'quick' else 12)]
    res = core.pool_map(record, jobs, chunksize=1)
    progs = []
    for ps, st in res:
        stats.update(st)
        for p in ps:
            p['pid'] = len(progs)
            progs.append(p)
    send = [{k: v for k, v in p.items() if k not in ('kind', 'name', 'shape', 'core')} for p in progs]
    # programs with statements after an inner `with` block also run in the form the backend's known defect gives them
    for p in progs:
        if p['kind'] in ('titanfp', 'reread') and p['shape']:
            q = nest_after_with({k: v for k, v in p.items() if k not in ('kind', 'name', 'shape', 'core')})
            q['pid'] = p['pid'] + NESTED
            send.append(q)
    mm, skips, gen, dis = progrun.run_machine(send)
    nested_differs = {(m[0] - NESTED, m[1]) for m in mm if m[0] >= NESTED}
    nested_unknown = {(s_[0] - NESTED, s_[1]) for s_ in skips if s_[0] >= NESTED}
    mm = [m for m in mm if m[0] < NESTED]
    skips = [s_ for s_ in skips if s_[0] < NESTED]
    rep.add_tlc(gen, dis)
    byp = {p['pid']: p for p in progs}
    mm, skips = progrun.split_big(byp, mm, skips)
    def has_inf(j):
        if isinstance(j, dict):
            return j.get('k') in ('inf', 'nan') or any(has_inf(v) for v in j.values())      # (a NaN downstream of that infinity: inf / inf)
        if isinstance(j, list):
            return any(has_inf(v) for v in j)
        return False
    for (pid, idx, clause, merr) in mm:
        p = byp[pid]
        if p['kind'] == 'titanfp' and clause == 'value' and has_inf(p['inputs'][idx - 1]['out']) and any(m in p['src'] for m in ('RTZ', 'RTP', 'RTN', 'RAZ')):
            stats['titanfp-overflow-under-a-directed-mode-not-judged'] += 1
            continue
        key = {'clause': clause, 'kind': p['kind']}
        if p['kind'] in ('titanfp', 'reread') and p['name'] == 'hand_target_shadow':
            key['shape'] = 'loop-target-shadows-a-variable-read-after-the-loop'
        elif p['kind'] in ('titanfp', 'reread') and p['shape']:
            if (pid, idx) in nested_differs and (pid, idx) not in nested_unknown:
                # not what nesting the continuation into the block gives either: not the known finding
                key['nested'] = 'differs-from-the-nested-evaluation-too'
            else:
                key['shape'] = 'operations-after-a-with-block'
        elif p['kind'] in ('titanfp', 'reread') and clause == 'value-zero-sign' and 'MPFixedContext(-1' in p['src']:
            key['shape'] = 'negative-zero-of-MPFixedContext(-1)-is-lost-by-precision-integer'
        rep.mismatch(key, {'program': p['src'], 'kind': p['kind'], 'input': p['inputs'][idx - 1], 'clause': clause, 'machine_error': merr,
                           'core': p['core']})
    # --- the reader on hand-written cores: (reference evaluator, re-read function) pairs judged by spec/Agree.tla
    crecs = record_cores(stats)
    for i, r_ in enumerate(crecs):
        r_['tid'] = i
    if crecs:
        cout = core.validate_trace('Agree', [{'tid': r_['tid'], 'a': r_['a'], 'b': r_['b']} for r_ in crecs], cfg='Agree')
        rep.add_tlc(cout.generated, cout.distinct)
        names = {'compiled-code-failed': 'reread-function-raises', 'compiled-result-differs': 'reread-function-differs-from-the-core'}
        for (tid, clause) in cout.mismatches:
            r_ = crecs[tid]
            rep.mismatch({'clause': names.get(clause, clause), 'kind': 'core', 'core': r_['core']},
                         {'core': r_['src'], 'args': r_['args'], 'reference_evaluator': r_['a'], 'reread_function': r_['b'], 'clause': names.get(clause, clause)})
    rep.cov['hand_written_cores'] = len(CORES)
    rep.cov['core_reader_pairs'] = len(crecs)
    runs = Counter()
    for p in progs:
        runs[p['kind']] += len(p['inputs'])
    skipc = Counter(s[3] for s in skips)
    rep.cov.update({'programs': len({p['name'] for p in progs}), 'evaluations': sum(runs.values()),
                    'traces_validated_against_impl': sum(runs.values()) - sum(skipc.values()), 'runs_by_kind': dict(runs),
                    'distinct_nontrivial': len({p['name'] for p in progs if p['kind'] != 'fpy'}),
                    'programs_with_operations_after_a_with_block': len({p['name'] for p in progs if p['shape']}),
                    'skipped_by_reason': dict(skipc), 'not_run': dict(stats),
                    'rule': 'hand + generated programs of the FPCore-expressible subset x argument vectors; the machine outcome on the original AST is the '
                            'expectation for the real interpreter, for titanfp on the compiled core and for the re-read function'})
    for p in progs[:2]:
        rep.sample({'program': p['src'], 'kind': p['kind'], 'core': p['core'][:400]})
    return rep.finish()


def replay(path: str) -> int:
    import json
    print(json.dumps(json.loads(open(path).read()), indent=1)[:4000])
    return 0
