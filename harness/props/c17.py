"""
C17 -- Stochastic rounding picks a neighbour with the exact probability.

Design level: spec/MCStochastic.tla (all draws of every small configuration; the pre-fix
algorithm is rejected as MUT = 1).
Mode V: a scripted random.Random returns every r in 0 .. 2^k - 1 in turn (and counts the
calls); one record per (context, operand) holding all 2^k results is judged by
Stochastic!StochVerdict.
"""
from __future__ import annotations

import random
from fractions import Fraction

import fpy2 as fp
from fpy2.number import Float, RealFloat
from fpy2.number.context.efloat import EFloatContext, EFloatNanKind
from fpy2.number.context.fixed import FixedContext
from fpy2.number.context.ieee754 import IEEEContext
from fpy2.number.context.mp_fixed import MPFixedContext
from fpy2.number.context.mp_float import MPFloatContext
from fpy2.number.context.mpb_fixed import MPBFixedContext
from fpy2.number.context.mpb_float import MPBFloatContext
from fpy2.number.context.mps_float import MPSFloatContext
from fpy2.number.context.sm_fixed import SMFixedContext

from .. import core, gen_num
from ..export import OutOfDomain, ctx_json, num_json

RM, OV = fp.RM, fp.OV


class Scripted(random.Random):
    """random source whose next draw is set by the harness; counts the requests"""

    def __init__(self):
        super().__init__(0)
        self.value = 0
        self.calls = 0
        self.kreq = None

    def getrandbits(self, k):
        self.calls += 1
        self.kreq = k
        return self.value & ((1 << k) - 1) if k > 0 else 0

    def random(self):            # any other use of the generator would be a second draw
        self.calls += 1
        return 0.0


def make_contexts(tier: str):
    """(constructor taking (rm, k, rng)) for every family supporting random bits"""
    big = tier == 'thorough'
    fams = []
    for p in (1, 2, 3) + ((4,) if big else ()):
        fams.append(lambda rm, k, rng, p=p: MPFloatContext(p, rm, k, rng=rng))
        for emin in (-2, 0):
            fams.append(lambda rm, k, rng, p=p, emin=emin: MPSFloatContext(p, emin, rm, k, rng=rng))
    for p in (2, 3):
        mv = RealFloat(c=(1 << p) - 1, exp=2 - p + 1)
        fams.append(lambda rm, k, rng, p=p, mv=mv: MPBFloatContext(p, -1, mv, rm, OV.SATURATE, k, rng=rng))
    for (es, nbits) in ((2, 4), (2, 5), (3, 5)):
        fams.append(lambda rm, k, rng, es=es, nbits=nbits: IEEEContext(es, nbits, rm, OV.OVERFLOW, k, rng=rng))
    fams.append(lambda rm, k, rng: EFloatContext(2, 5, False, EFloatNanKind.NEG_ZERO, 1, rm, OV.SATURATE, k, rng=rng))
    fams.append(lambda rm, k, rng: EFloatContext(3, 5, True, EFloatNanKind.MAX_VAL, -1, rm, OV.OVERFLOW, k, rng=rng))
    for nmin in (-3, -1, 1):
        fams.append(lambda rm, k, rng, nmin=nmin: MPFixedContext(nmin, rm, k, rng=rng))
        fams.append(lambda rm, k, rng, nmin=nmin: MPBFixedContext(nmin, RealFloat(c=7, exp=nmin + 1), rm, OV.SATURATE, k, rng=rng))
    fams.append(lambda rm, k, rng: FixedContext(True, -2, 5, rm, OV.SATURATE, k, rng=rng))
    fams.append(lambda rm, k, rng: FixedContext(False, 0, 4, rm, OV.WRAP, k, rng=rng))
    fams.append(lambda rm, k, rng: SMFixedContext(-1, 4, rm, OV.SATURATE, k, rng=rng))
    return fams


def gap_points(ctx, dense: int = 16):
    """operands at every 1/dense of a few gaps (subnormal range, a normal binade, the last gap
    below the largest value), plus thirds"""
    pts = gen_num.operand_points(ctx, 1)          # the members (gap ends) of the grid
    p, nmin, mx = gen_num._core(ctx)
    if mx is not None:
        pts = [q for q in pts if q <= mx]
    pts = sorted(set(pts))
    gaps = list(zip(pts, pts[1:]))
    if not gaps:
        return []
    pick = {0, 1, len(gaps) // 2, len(gaps) - 1, len(gaps) - 2}
    out = []
    for i in sorted(j for j in pick if 0 <= j < len(gaps)):
        a, b = gaps[i]
        for m in range(0, dense + 1):
            out.append(a + (b - a) * m / dense)
        out.append(a + (b - a) / 3)
        out.append(a + (b - a) * 2 / 3)
        out.append(a + (b - a) * 5 / 7)
    return sorted(set(out))


def record(job):
    idx, rmname, k, tier = job
    rng = Scripted()
    mk = make_contexts(tier)[idx]
    try:
        ctx = mk(RM[rmname], k, rng)
    except (ValueError, TypeError):
        return []
    cj = ctx_json(ctx)
    recs = []
    for q in gap_points(ctx):
        for sgn in (1, -1):
            if q == 0:
                continue
            xq = sgn * q
            d = xq.denominator
            dy = d & (d - 1) == 0
            xs = [Float(s=xq < 0, c=abs(xq.numerator), exp=-(d.bit_length() - 1))] if dy else []
            if dy and k is None:
                # trailing zeros in the encoding ask for more random bits
                xs.append(Float(s=xq < 0, c=abs(xq.numerator) << 2, exp=-(d.bit_length() - 1) - 2))
            if not dy and k is not None:
                xs.append(xq)
            for x in xs:
                try:
                    xj = num_json(x)
                except OutOfDomain:
                    continue
                # probe: how many bits does the rounding ask for?
                rng.value, rng.calls, rng.kreq = 0, 0, None
                try:
                    ctx.round(x)
                except Exception:      # noqa: BLE001
                    continue
                kreq = rng.kreq if rng.kreq is not None else 0
                if kreq > 6:
                    continue
                outs = []
                try:
                    for r in range(1 << kreq):
                        rng.value, rng.calls = r, 0
                        y = ctx.round(x)
                        outs.append({'val': num_json(y), 'nd': rng.calls})
                except OutOfDomain:
                    continue
                except Exception as e:   # noqa: BLE001
                    outs = [{'val': {'k': 'nan'}, 'nd': -1}]
                recs.append({'ctx': cj, 'x': xj, 'kreq': kreq, 'outs': outs,
                             'xt': type(x).__name__})
    return recs


def run(tier: str) -> int:
    rep = core.Report('C17', tier)
    mc = core.run_tlc('MCStochastic', 'MCStochastic_quick' if tier == 'quick' else 'MCStochastic',
                      workers=core.NCPU, timeout=3000)
    if not mc.ok:
        print('MACHINERY: MCStochastic failed\n' + mc.error)
        return 2
    rep.add_tlc(mc.generated, mc.distinct)
    mut = core.run_tlc('MCStochastic', 'MCStochastic_mut', workers=core.NCPU, timeout=600)
    if 'Invariant CountOK is violated' not in mut.output:
        print('MACHINERY: the deliberately wrong stochastic algorithm (MUT=1) was not rejected')
        return 2
    rep.cov['design_level'] = {'module': 'MCStochastic', 'states': mc.distinct, 'mutant_rejected': True}
    nf = len(make_contexts(tier))
    ks = (1, 2, 3, None) if tier == 'quick' else (1, 2, 3, 4, None)
    jobs = [(i, rm.name, k, tier) for i in range(nf) for rm in RM for k in ks]
    if tier == 'quick':
        off = core.seed() % 2
        jobs = [j for n, j in enumerate(jobs) if n % 2 == off]
    recs = [r for rs in core.pool_map(record, jobs, chunksize=4) for r in rs]
    for i, r in enumerate(recs):
        r['tid'] = i
    out = core.validate_trace('StochasticTrace', recs)
    rep.add_tlc(out.generated, out.distinct)
    rep.cov['traces_validated_against_impl'] = len(recs)
    rep.cov['evaluations'] = sum(len(r['outs']) for r in recs)
    rep.cov['distinct_nontrivial'] = sum(1 for r in recs if len({repr(o['val']) for o in r['outs']}) > 1)
    rep.cov['rule'] = ('every family with random bits x 8 modes x k in 1..4 and "all bits" x sixteenths / thirds of gaps in the '
                       'subnormal range, a normal binade and below the largest value x all 2^k draws; non-trivial = both neighbours occur')
    rep.cov['exhaustive'] = True
    for r in recs[:: max(1, len(recs) // 4)][:4]:
        rep.sample(r)
    by = {r['tid']: r for r in recs}
    for mm in out.mismatches:
        r = by[mm[0]]
        key = {'fam': r['ctx']['fam'], 'clause': mm[1], 'rm': r['ctx']['rm'], 'k': r['ctx']['k']}
        rep.mismatch(key, r)
    return rep.finish()


def replay(path: str) -> int:
    return core.replay_saved('C17', 'StochasticTrace', path, rerun=globals().get('_rerun'))
