"""
C18 -- Evaluation is pure, isolated from the caller and reentrant.

Design level: spec/Runtime.tla (two threads x scripts of calls, seven steps per call; SeqEquivalent, ArgsUntouched,
NoSharedStructure, CacheByIdentity over all interleavings; five wrong designs must be rejected).

Conformance: every job is ONE pristine process (= one history).  The process first computes, for every call it is going
to make, the result of that call ALONE (a fork of the still pristine process per call: Runtime!Expected), then lives a
history: sequential calls of many functions under many contexts, transformed copies and same-named twins, fresh
interpreters, and concurrent phases in which two real threads are stepped through schedules that TLC generated from
Runtime.tla (spec/RuntimeSched.tla, -simulate): one model step = the thread advances to its next observable point
(a line of BytecodeInterpreter.eval, of gmputils' scoped MPFR calls, or of the compiled function).  Every completed
call is one record judged by spec/RuntimeTrace.tla.
"""
from __future__ import annotations

import json
import os
import random
import subprocess
import sys
import tempfile
import threading
import time

from .. import core

PROGRAMS = '''import fpy2 as fp

G = [1.0, 2.0]

@fp.fpy
def p_mut(x: fp.Real, xs: list[fp.Real]):
    xs[0] = xs[0] + x
    return xs[0] * 2

@fp.fpy
def p_ret(x: fp.Real, xs: list[fp.Real]):
    return xs

@fp.fpy
def p_tup(x: fp.Real, xs: list[fp.Real]):
    ys = [e + x for e in xs]
    xs[0] = x
    return (xs, ys)

@fp.fpy
def p_trans(x: fp.Real, xs: list[fp.Real]):
    return fp.exp(x) + fp.sin(xs[0]) / 3

@fp.fpy
def p_with(x: fp.Real, xs: list[fp.Real]):
    with fp.IEEEContext(5, 16, fp.RM.RTZ):
        a = fp.sqrt(x) / 3
    with fp.MPFixedContext(-4, fp.RM.RTP):
        b = fp.exp(a)
    return a + b * fp.log(x + 1)

@fp.fpy
def p_call(x: fp.Real, xs: list[fp.Real]):
    t = p_mut(x, xs)
    return t + xs[0]

@fp.fpy
def p_loop(x: fp.Real, xs: list[fp.Real]):
    acc = x
    for e in xs:
        acc = acc * e + fp.atan(e)
    for i in range(len(xs)):
        xs[i] = acc
    return (acc, len(xs))

@fp.fpy(ctx=fp.IEEEContext(8, 32))
def p_own(x: fp.Real, xs: list[fp.Real]):
    return x / 3 + xs[0]

@fp.fpy
def p_nest(x: fp.Real, xss: list[list[fp.Real]]):
    xss[0][0] = x
    return xss[0]

@fp.fpy
def p_pair(x: fp.Real, t: tuple[fp.Real, list[fp.Real]]):
    a, ys = t
    ys[0] = a + x
    return (ys, a)

@fp.fpy
def p_const(x: fp.Real, xs: list[fp.Real]):
    return fp.const_pi() * x + fp.const_e() / xs[0] - fp.const_log2e() + fp.const_2_sqrt_pi()

@fp.fpy
def p_const2(x: fp.Real, xs: list[fp.Real]):
    with fp.MPFixedContext(-3):
        a = fp.const_pi()
    b = fp.const_pi() + fp.const_ln2() * x
    with fp.MPFixedContext(-12, fp.RM.RTZ):
        c = fp.const_sqrt2() * a
    return (a, b, c)

@fp.fpy
def p_lit(x: fp.Real, xs: list[fp.Real]):
    t = [0.0, 0.0]
    u = p_mut(x, t)
    w = [[0.5, 0.25], [1.0, 2.0]]
    v = p_nest(x, w)
    return (t[0], u, w[0][0], v)

@fp.fpy
def p_litret(x: fp.Real, xs: list[fp.Real]):
    t = [0.1, 0.2]
    return t

@fp.fpy
def p_capw(x: fp.Real, xs: list[fp.Real]):
    G[0] = G[0] + x
    return G[0]

@fp.fpy
def p_capr(x: fp.Real, xs: list[fp.Real]):
    return G
'''

TWIN_A = '''import fpy2 as fp

@fp.fpy
def twin(x: fp.Real, xs: list[fp.Real]):
    return x / 3 + xs[0]
'''
TWIN_B = '''import fpy2 as fp

@fp.fpy
def twin(x: fp.Real, xs: list[fp.Real]):
    return x / 7 - xs[0]
'''

CAPTURED = {'p_capw': 'writes-captured-list', 'p_capr': 'returns-captured-list'}


# ---------------------------------------------------------------------------------------------------------------
# everything below `job_main` runs inside the job's own process

def canon(v):
    import fpy2 as fp
    from fractions import Fraction
    if isinstance(v, bool):
        return ['b', v]
    if isinstance(v, fp.Float):
        if v.isnan:
            return ['nan']
        if v.isinf:
            return ['inf', bool(v.s)]
        return ['f', bool(v.s), str(v.c), int(v.exp) if v.c != 0 else 0] if v.c != 0 else ['z', bool(v.s)]
    if isinstance(v, Fraction):
        return ['q', str(v.numerator), str(v.denominator)]
    if isinstance(v, (int, float)):
        return ['py', repr(v)]
    if isinstance(v, list):
        return ['L'] + [canon(x) for x in v]
    if isinstance(v, tuple):
        return ['T'] + [canon(x) for x in v]
    return ['other', type(v).__name__]


def norm(c):
    """normal form of a canonical float: odd significand"""
    if isinstance(c, list) and c and c[0] == 'f':
        m, e = int(c[2]), c[3]
        while m % 2 == 0:
            m //= 2
            e += 1
        return ['f', c[1], str(m), e]
    if isinstance(c, list):
        return [norm(x) for x in c]
    return c


def list_ids(v, acc):
    if isinstance(v, list):
        acc.add(id(v))
        for x in v:
            list_ids(x, acc)
    elif isinstance(v, tuple):
        for x in v:
            list_ids(x, acc)
    return acc


def scribble(v):
    import fpy2 as fp
    if isinstance(v, list):
        for x in v:
            scribble(x)
        if v and not isinstance(v[0], (list, tuple)):
            v[0] = fp.Float.from_float(99.0)
    elif isinstance(v, tuple):
        for x in v:
            scribble(x)


def outcome(fn, args, ctx):
    """(result text, same, shares) of one real call"""
    before = json.dumps(norm(canon(list(args))))
    argids = set()
    for a in args:
        list_ids(a, argids)
    try:
        r = fn(*args, ctx=ctx)
        res = json.dumps(norm(canon(r)))
        shares = bool(list_ids(r, set()) & argids)
        scribble(r)         # the caller owns the result: writing into it must not reach any later evaluation
    except Exception as e:      # noqa: BLE001
        res = 'raises ' + type(e).__name__
        shares = False
    after = json.dumps(norm(canon(list(args))))
    return res, before == after, shares


class Sched:
    """Deterministic stepping of real threads at observable points (sys.settrace line events in selected code)."""

    def __init__(self, order, chunks):
        self.cv = threading.Condition()
        self.turn = None
        self.alive = set()
        self.order = list(order)
        self.chunks = chunks
        self.pos = 0
        self.budget = 0
        self.free = False
        self.points = 0

    def wait_turn(self, tid):
        with self.cv:
            while self.turn != tid and not self.free:
                self.cv.wait(0.5)

    def point(self, tid):
        if self.free:
            return
        with self.cv:
            self.points += 1
            self.budget -= 1
            if self.budget > 0:
                return
            self.turn = None
            self.cv.notify_all()
            while self.turn != tid and not self.free:
                self.cv.wait(0.5)

    def finish(self, tid):
        with self.cv:
            self.alive.discard(tid)
            if self.turn == tid:
                self.turn = None
            self.cv.notify_all()

    def control(self):
        rr = 0
        with self.cv:
            while self.alive:
                t0 = time.time()
                while self.turn is not None and self.alive:
                    self.cv.wait(0.5)
                    if time.time() - t0 > 20:       # a thread is stuck on something the stepping cannot see
                        self.free = True
                        self.cv.notify_all()
                        return False
                if not self.alive:
                    break
                tid = None
                while self.pos < len(self.order):
                    cand = self.order[self.pos]
                    self.pos += 1
                    if cand in self.alive:
                        tid = cand
                        break
                if tid is None:
                    al = sorted(self.alive)
                    tid = al[rr % len(al)]
                    rr += 1
                self.budget = self.chunks[(self.pos + rr) % len(self.chunks)]
                self.turn = tid
                self.cv.notify_all()
        return True


def run_threads(calls_by_thread, order, chunks, traced_files, free_running=False):
    """calls_by_thread: {tid: [(key, fn, args, ctx)]}; returns ([(tid, key, res, same, shares)], stepped_ok, points)"""
    sched = Sched(order, chunks)
    sched.alive = set(calls_by_thread)
    out = []
    lock = threading.Lock()

    def tracer_for(tid):
        def local(frame, event, arg):
            if event == 'line':
                sched.point(tid)
            return local

        def glob(frame, event, arg):
            if event != 'call':
                return None
            co = frame.f_code
            fnm = co.co_filename
            if fnm in traced_files or (fnm.endswith('number/gmputils.py') and co.co_name in ('_mpfr_call_with_prec', 'mpfr_call')) \
                    or (fnm.endswith('interpret/byte.py') and co.co_name == 'eval'):
                return local
            return None
        return glob

    def worker(tid):
        if not free_running:
            sys.settrace(tracer_for(tid))
            sched.wait_turn(tid)
        try:
            for (key, fn, args, ctx) in calls_by_thread[tid]:
                res, same, shares = outcome(fn, args, ctx)
                with lock:
                    out.append((tid, key, res, same, shares))
        finally:
            sys.settrace(None)
            sched.finish(tid)

    if free_running:
        sched.free = True
        old = sys.getswitchinterval()
        sys.setswitchinterval(1e-6)
    ths = [threading.Thread(target=worker, args=(tid,)) for tid in calls_by_thread]
    for t in ths:
        t.start()
    ok = True
    if not free_running:
        ok = sched.control()
    for t in ths:
        t.join(60)
    if free_running:
        sys.setswitchinterval(old)
    return out, ok, sched.points


def job_main(spec_path: str):
    job = json.load(open(spec_path))
    rng = random.Random(job['seed'])
    work = job['work']
    sys.path.insert(0, '/verif')
    import importlib.util
    import fpy2 as fp

    def load(text, name):
        path = os.path.join(work, name + '.py')
        open(path, 'w').write(text)
        sp = importlib.util.spec_from_file_location(name, path)
        m = importlib.util.module_from_spec(sp)
        sys.modules[name] = m
        sp.loader.exec_module(m)
        return m, path

    mod, ppath = load(PROGRAMS, f'c18prog_{job["id"]}')
    ta, tapath = load(TWIN_A, f'c18twa_{job["id"]}')
    tb, tbpath = load(TWIN_B, f'c18twb_{job["id"]}')
    traced = {ppath, tapath, tbpath}
    S = fp.strategies
    funcs = {n: getattr(mod, n) for n in ('p_mut', 'p_ret', 'p_tup', 'p_trans', 'p_with', 'p_call', 'p_loop', 'p_own', 'p_nest', 'p_pair', 'p_const', 'p_const2', 'p_lit', 'p_litret')}
    if job.get('captured'):
        funcs.update({n: getattr(mod, n) for n in CAPTURED})
    funcs['twin@a'] = ta.twin
    funcs['twin@b'] = tb.twin
    # transformed copies: made now (pure AST work, nothing is evaluated), used later in the history
    for n, mk in (('p_with~simplify', lambda: S.simplify(funcs['p_with'])), ('p_loop~unroll', lambda: S.unroll_for(funcs['p_loop'], None, 1)),
                  ('p_call~inline', lambda: S.inline(funcs['p_call'])), ('p_mut~simplify', lambda: S.simplify(funcs['p_mut'])),
                  ('twin@a~simplify', lambda: S.simplify(funcs['twin@a']))):
        try:
            funcs[n] = mk()
        except Exception:       # noqa: BLE001
            pass
    ctxs = {'fp64': fp.IEEEContext(11, 64), 'h.rne': fp.IEEEContext(5, 16), 'h.rtz': fp.IEEEContext(5, 16, fp.RM.RTZ),
            'mp10.rtp': fp.MPFloatContext(10, fp.RM.RTP), 'mp200.rtn': fp.MPFloatContext(200, fp.RM.RTN),
            'fx8': fp.MPFixedContext(-8, fp.RM.RNA), 'mp3': fp.MPFloatContext(3), 'fx2': fp.MPFixedContext(-2), 'fx30': fp.MPFixedContext(-30, fp.RM.RTZ),
            'fx60': fp.MPFixedContext(-60)}

    def mkargs(name, i):
        xs = [[1.0, 2.5], [0.5], [3.0, 0.25, 1.5], [2.0, 2.0]][i % 4]
        x = [0.5, 1.0, 1.5, 2.0, 0.75][i % 5]
        # the element type varies: Python floats, FPy Floats (already values of the interpreter), ints
        if i % 3 == 1:
            xs = [fp.Float.from_float(e) for e in xs]
            x = fp.Float.from_float(x)
        elif i % 3 == 2:
            xs = [int(e * 4) for e in xs]
        base = name.split('~')[0].split('@')[0]
        if base == 'p_nest':
            return (x, [list(xs), [1.0]])
        if base == 'p_pair':
            # (with i % 3 == 1 every leaf of the tuple is already an FPy value)
            return (x, (fp.Float.from_float(2.0) if i % 3 == 1 else 2.0, list(xs)))
        return (x, list(xs))

    def key_of(fname, cname, ai):
        return f'{fname}|{cname}|{ai}'

    # ---- the plan of the history (so that the solo table can be computed first)
    names = sorted(funcs)
    cn = sorted(ctxs)
    plan = []
    nseq = job['nseq']
    for i in range(nseq):
        plan.append(('call', rng.choice(names), rng.choice(cn), rng.randrange(20)))
        if rng.random() < 0.08:
            plan.append(('newinterp',))
    phases = []
    for order in job['schedules']:
        cb = {}
        for tid in (1, 2):
            cb[tid] = [(rng.choice(names), rng.choice(cn), rng.randrange(20)) for _ in range(2)]
        # bias: the same function under different contexts / rounding modes in the two threads
        if rng.random() < 0.5:
            f0 = rng.choice(names)
            cb[1][0] = (f0, rng.choice(cn), rng.randrange(20))
            cb[2][0] = (f0, rng.choice(cn), rng.randrange(20))
        phases.append((order, cb))
    allcalls = {(p[1], p[2], p[3]) for p in plan if p[0] == 'call'}
    for _, cb in phases:
        for tid in cb:
            allcalls |= set(cb[tid])
    # ---- solo results: one fork of the pristine process per call
    solo = {}
    for (fname, cname, ai) in sorted(allcalls):
        r, w = os.pipe()
        pid = os.fork()
        if pid == 0:
            try:
                os.close(r)
                res, _, _ = outcome(funcs[fname], mkargs(fname, ai), ctxs[cname])
                os.write(w, res.encode())
            finally:
                os._exit(0)
        os.close(w)
        buf = b''
        while True:
            b = os.read(r, 65536)
            if not b:
                break
            buf += b
        os.close(r)
        os.waitpid(pid, 0)
        solo[key_of(fname, cname, ai)] = buf.decode()
    # ---- the history
    from fpy2.interpret import interpreter as I
    recs = []
    stats = {'stepped_phases': 0, 'unstepped_phases': 0, 'points': 0, 'free_phases': 0}

    def interp():
        return I.get_default_interpreter()

    def cache_keys():
        return {str(id(a)) for a in getattr(interp(), 'func_cache', {})}

    def seq_call(fname, cname, ai):
        fn = funcs[fname]
        before = cache_keys()
        hit = 1 if str(id(fn.ast)) in before else 0
        res, same, shares = outcome(fn, mkargs(fname, ai), ctxs[cname])
        k = key_of(fname, cname, ai)
        recs.append({'ev': 'call', 'h': job['id'], 'th': 0, 'fn': str(id(fn.ast)), 'name': fname, 'key': k, 'hit': hit, 'res': res,
                     'solo': solo[k], 'same': same, 'shares': shares, 'newc': sorted(cache_keys() - before)})

    def reset():
        from fpy2.interpret.byte import BytecodeInterpreter
        I.set_default_interpreter(BytecodeInterpreter())
        recs.append({'ev': 'reset', 'h': job['id'], 'th': 0, 'fn': '', 'name': '', 'key': '', 'hit': -1, 'res': '', 'solo': '', 'same': True,
                     'shares': False, 'newc': []})

    half = len(plan) // 2
    for p in plan[:half]:
        if p[0] == 'call':
            seq_call(*p[1:])
        else:
            reset()
    for (order, cb) in phases:
        calls = {tid: [(key_of(*c), funcs[c[0]], mkargs(c[0], c[2]), ctxs[c[1]]) for c in cb[tid]] for tid in cb}
        fnname = {key_of(*c): c[0] for tid in cb for c in cb[tid]}
        free = order == 'free'
        out, ok, pts = run_threads(calls, [] if free else order, job['chunks'], traced, free_running=free)
        stats['free_phases' if free else ('stepped_phases' if ok else 'unstepped_phases')] += 1
        stats['points'] += pts
        for (tid, k, res, same, shares) in out:
            fname = fnname[k]
            recs.append({'ev': 'call', 'h': job['id'], 'th': tid, 'fn': str(id(funcs[fname].ast)), 'name': fname, 'key': k, 'hit': -1, 'res': res,
                         'solo': solo[k], 'same': same, 'shares': shares, 'newc': []})
        # what the cache holds after the concurrent phase is observed, not inferred
        recs.append({'ev': 'sync', 'h': job['id'], 'th': 0, 'fn': '', 'name': '', 'key': '', 'hit': -1, 'res': '', 'solo': '', 'same': True,
                     'shares': False, 'newc': sorted(cache_keys())})
    for p in plan[half:]:
        if p[0] == 'call':
            seq_call(*p[1:])
        else:
            reset()
    json.dump({'recs': recs, 'stats': stats}, open(job['out'], 'w'))


# ---------------------------------------------------------------------------------------------------------------

def tlc_schedules(n: int, seed: int):
    meta = tempfile.mkdtemp(prefix='tlcmeta-')
    try:
        cmd = ['java', '-XX:+UseSerialGC', '-cp', core.TLA_JAR, 'tlc2.TLC', '-simulate', f'num={n}', '-depth', '40', '-workers', '1',
               '-seed', str(seed), '-metadir', meta, '-noGenerateSpecTE', '-config', 'RuntimeSched.cfg', 'RuntimeSched.tla']
        p = subprocess.run(cmd, cwd=str(core.SPEC), capture_output=True, text=True, timeout=600)
    finally:
        import shutil
        shutil.rmtree(meta, ignore_errors=True)
    out = []
    for ln in p.stdout.splitlines():
        if ln.startswith('"SCHED <<'):
            body = ln[len('"SCHED <<'):ln.rindex('>>')]
            out.append([int(x) for x in body.split(',') if x.strip()])
    if not out:
        raise core.MachineryError('TLC -simulate produced no schedule:\n' + p.stdout[-800:] + p.stderr[-400:])
    return out


def run_job(spec):
    work = tempfile.mkdtemp(prefix='verif-c18-')
    try:
        spec = dict(spec, work=work, out=os.path.join(work, 'out.json'))
        sp = os.path.join(work, 'job.json')
        json.dump(spec, open(sp, 'w'))
        env = dict(os.environ, PYTHONHASHSEED='0')
        p = subprocess.run([sys.executable, '-c', f'import sys; sys.path.insert(0, "/verif"); from harness.props import c18; c18.job_main({sp!r})'],
                           capture_output=True, text=True, timeout=1500, env=env)
        if not os.path.exists(spec['out']):
            return {'error': (p.stdout + p.stderr)[-1500:]}
        return json.load(open(spec['out']))
    finally:
        import shutil
        shutil.rmtree(work, ignore_errors=True)


def run(tier: str) -> int:
    rep = core.Report('C18', tier)
    mc = core.run_tlc('Runtime', 'Runtime', workers=core.NCPU, timeout=1200)
    if not mc.ok:
        print('MACHINERY: Runtime failed\n' + mc.error)
        return 2
    rep.add_tlc(mc.generated, mc.distinct)
    rep.cov['design_level'] = {'module': 'Runtime', 'states': mc.distinct, 'rejected_designs': []}
    want = {'SharedCtx': 'SeqEquivalent', 'CacheByName': 'SeqEquivalent', 'NoCopyIn': 'ArgsUntouched', 'SharedMPFR': 'SeqEquivalent',
            'AliasResult': 'NoSharedStructure'}
    for m, inv in want.items():
        r = core.run_tlc('Runtime', f'Runtime_mut_{m}', workers=1, timeout=600)
        if f'Invariant {inv} is violated' not in r.output:
            print(f'MACHINERY: the wrong design {m} was not rejected by {inv}')
            return 2
        rep.cov['design_level']['rejected_designs'].append(m)
    njobs, nsched, nseq = (6, 8, 50) if tier == 'quick' else (40, 20, 160)
    scheds = tlc_schedules(njobs * nsched, core.seed() + 11)
    jobs = []
    for j in range(njobs):
        ss = scheds[j * nsched:(j + 1) * nsched]
        if tier == 'thorough':
            ss = ss + ['free'] * 4
        jobs.append({'id': j, 'seed': core.seed() * 977 + j, 'nseq': nseq, 'schedules': ss, 'chunks': [1, 2, 1, 3, 1, 5, 2, 8],
                     'captured': j % 3 == 2})
    res = core.pool_map(run_job, jobs, chunksize=1)
    recs = []
    stats = {'stepped_phases': 0, 'unstepped_phases': 0, 'points': 0, 'free_phases': 0}
    for r in res:
        if 'error' in r:
            print('MACHINERY: a history process failed\n' + r['error'])
            return 2
        recs += r['recs']
        for k in stats:
            stats[k] += r['stats'][k]
    for i, r in enumerate(recs):
        r['tid'] = i
    out = core.validate_trace('RuntimeTrace', recs, nshards=1)
    rep.add_tlc(out.generated, out.distinct)
    by = {r['tid']: r for r in recs}
    for mm in out.mismatches:
        r = by[mm[0]]
        base = r['name'].split('~')[0]
        key = {'clause': mm[1]}
        if base in CAPTURED:
            key['shape'] = CAPTURED[base]
        rep.mismatch(key, {k: r[k] for k in ('name', 'key', 'th', 'hit', 'res', 'solo', 'same', 'shares')} | {'clause': mm[1]})
    rep.cov.update({'histories': len(jobs), 'evaluations': sum(1 for r in recs if r['ev'] == 'call'), 'traces_validated_against_impl': sum(1 for r in recs if r['ev'] == 'call'),
                    'distinct_nontrivial': len({r['key'] for r in recs if r['ev'] == 'call'}),
                    'calls_in_concurrent_phases': sum(1 for r in recs if r['th'] != 0),
                    'tlc_schedules_replayed': stats['stepped_phases'], 'schedules_abandoned_to_free_running': stats['unstepped_phases'],
                    'free_running_phases': stats['free_phases'], 'observable_points_stepped': stats['points'],
                    'rule': 'per history (one pristine process): solo result of every call by fork, then sequential calls over 19 functions '
                            '(mutating / returning their list, nested containers, MPFR functions, own context, helpers, same-named twins, '
                            'transformed copies, every third history also functions on a captured list) x 10 contexts, fresh interpreters, and two-thread phases stepped '
                            'through TLC-generated schedules of Runtime.tla at line granularity of eval / gmputils / compiled code'})
    for r in [r for r in recs if r['ev'] == 'call'][:: max(1, len(recs) // 3)][:3]:
        rep.sample({k: r[k] for k in ('name', 'key', 'th', 'hit', 'res', 'solo', 'same', 'shares')})
    return rep.finish()


def replay(path: str) -> int:
    print(json.dumps(json.loads(open(path).read()), indent=1)[:4000])
    return 0
