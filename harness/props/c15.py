"""
C15 -- An accepted program never reads an unbound name or falls off its end.

Programs of a bounded grammar (assign, tuple pattern, if/else, one-armed if, for, while, with-as,
comprehension, return; names a, b, e) are enumerated as abstract def/use tables AND as source text whose
branch outcomes and trip counts are dedicated steering parameters.  The real @fpy front end accepts or
rejects each text; accepted ones are run by the real interpreter on every steering vector.  TLC runs
spec/Scoping.tla: the usage guide's rules must be sound for the path machine (design level), a program
the rules reject must not be accepted, and on every steering vector the real outcome must match the
path machine's (no unbound read, no fall-through).
"""
from __future__ import annotations

import itertools
import json
import os
import random
import shutil
import tempfile
from collections import Counter

from .. import core, gen_prog

NAMES = ['a', 'b', 'e']


class Builder:
    def __init__(self, rng):
        self.r = rng
        self.nc = 0     # steering slots
        self.kinds = []  # 'c' or 'n' per slot
        self.nw = 0
        self.blocks = []
        self.lines = []
        self.seen = []

    def slot(self, kind):
        self.nc += 1
        self.kinds.append(kind)
        return self.nc

    def uses(self, k=None):
        r = self.r
        k = r.choice([0, 1, 1, 2]) if k is None else k
        # biased towards names that were defined somewhere earlier in the text, so that a fair share is accepted
        pool = ['p', 'p'] + self.seen * 3 + NAMES
        out = []
        for _ in range(k):
            x = r.choice(pool)
            if x not in out:
                out.append(x)
        return out

    # a use is rendered type-agnostically (a name may hold a number, a list or a context)
    def use_expr(self, u, base='1'):
        return ' + '.join([f'len([{x}])' for x in u] + [base]) if u else base

    def zero_expr(self, u):
        return ''.join(f' + (len([{x}]) - len([{x}]))' for x in u)

    def block(self, depth, n, ind):
        """returns (block id, lines)"""
        bid = len(self.blocks)
        self.blocks.append(None)
        stmts, lines = [], []
        for _ in range(n):
            s, ls = self.stmt(depth, ind)
            stmts.append(s)
            lines += ls
        if not lines:
            lines = ['    ' * ind + 'pass']
        self.blocks[bid] = stmts
        return bid + 1, lines

    def stmt(self, depth, ind):
        r = self.r
        pad = '    ' * ind
        kinds = ['assign', 'assign', 'tuple', 'ret', 'comp']
        if depth < 2:
            kinds += ['if', 'if1', 'for', 'while', 'with', 'if', 'for']
        k = r.choice(kinds)
        if k == 'assign':
            d = [r.choice(NAMES[:2])]
            u = self.uses()
            self.seen += d
            return {'k': 'assign', 'd': d, 'u': u}, [f'{pad}{d[0]} = {self.use_expr(u)}']
        if k == 'tuple':
            u = self.uses()
            self.seen += ['a', 'b']
            return {'k': 'assign', 'd': ['a', 'b'], 'u': u}, [f'{pad}a, b = ({self.use_expr(u)}, 2)']
        if k == 'ret':
            u = self.uses()
            return {'k': 'ret', 'u': u}, [f'{pad}return {self.use_expr(u, "p")}']
        if k == 'comp':
            d = r.choice(NAMES[:2])
            u = self.uses(r.choice([0, 1]))
            return ({'k': 'comp', 'd': [d], 'cv': 'e', 'u': ['e'] + [x for x in u if x != 'e'], 'iu': []},
                    [f'{pad}{d} = [{self.use_expr(["e"] + [x for x in u if x != "e"])} for e in range(2)]'])
        if k in ('if', 'if1'):
            c = self.slot('c')
            u = self.uses(r.choice([0, 0, 1]))
            t, tl = self.block(depth + 1, r.choice([1, 1, 2]), ind + 1)
            lines = [f'{pad}if c{c}{self.zero_expr(u)} > 0:'] + tl
            f = 0
            if k == 'if':
                f, fl = self.block(depth + 1, r.choice([1, 1, 2]), ind + 1)
                lines += [f'{pad}else:'] + fl
            return {'k': 'if', 'u': u, 'c': c, 't': t, 'f': f}, lines
        if k == 'for':
            n = self.slot('n')
            d = r.choice([['a'], ['e'], ['b'], []])
            u = self.uses(r.choice([0, 0, 1]))
            b, bl = self.block(depth + 1, r.choice([1, 1, 2]), ind + 1)
            tgt = d[0] if d else '_'
            return ({'k': 'for', 'd': d, 'u': u, 'n': n, 'b': b},
                    [f'{pad}for {tgt} in range(n{n}{self.zero_expr(u)}):'] + bl)
        if k == 'while':
            n = self.slot('n')
            self.nw += 1
            w = f'w{self.nw}'
            u = self.uses(r.choice([0, 0, 1]))
            b, bl = self.block(depth + 1, r.choice([1, 1, 2]), ind + 1)
            # the counter is advanced first, so an early return or not, the trip count is n
            return ({'k': 'while', 'u': u, 'n': n, 'b': b},
                    [f'{pad}{w} = 0', f'{pad}while {w}{self.zero_expr(u)} < n{n}:', f'{pad}    {w} = {w} + 1'] + bl)
        if k == 'with':
            d = r.choice([['a'], [], ['b']])
            b, bl = self.block(depth + 1, r.choice([1, 2]), ind + 1)
            return ({'k': 'with', 'd': d, 'u': [], 'b': b},
                    [f'{pad}with fp.REAL{" as " + d[0] if d else ""}:'] + bl)
        raise AssertionError(k)


def make_program(rng, name: str):
    b = Builder(rng)
    _, lines = b.block(0, rng.choice([1, 2, 2, 3, 3, 4]), 1)
    if rng.random() < 0.7:
        # most programs end in a return, as an accepted program must
        u = b.uses()
        b.blocks[0].append({'k': 'ret', 'u': u})
        lines.append(f'    return {b.use_expr(u, "p")}')
    params = ['p'] + [f'{k}{i + 1}' for i, k in enumerate(b.kinds)]
    text = '\n'.join(['@fp.fpy', f'def {name}({", ".join(x + ": fp.Real" for x in params)}):'] + lines)
    wnames = [f'w{i + 1}' for i in range(b.nw)]
    return {'params': ['p'] + wnames, 'blocks': b.blocks, 'kinds': b.kinds}, text


HAND = [
    # the guide's own examples and the loop-target case
    ({'params': ['p'], 'kinds': ['n'], 'blocks': [[{'k': 'for', 'd': ['a'], 'u': [], 'n': 1, 'b': 2}, {'k': 'ret', 'u': ['a']}],
                                                 [{'k': 'assign', 'd': ['b'], 'u': ['a']}]]},
     '@fp.fpy\ndef {name}(p: fp.Real, n1: fp.Real):\n    for a in range(n1):\n        b = a + 1\n    return a + p'),
    ({'params': ['p'], 'kinds': ['c'], 'blocks': [[{'k': 'if', 'u': [], 'c': 1, 't': 2, 'f': 0}, {'k': 'ret', 'u': ['a']}],
                                                 [{'k': 'assign', 'd': ['a'], 'u': []}]]},
     '@fp.fpy\ndef {name}(p: fp.Real, c1: fp.Real):\n    if c1 > 0:\n        a = 1\n    return a + p'),
    ({'params': ['p'], 'kinds': ['c'], 'blocks': [[{'k': 'if', 'u': [], 'c': 1, 't': 2, 'f': 3}, {'k': 'ret', 'u': ['a']}],
                                                 [{'k': 'assign', 'd': ['a'], 'u': []}], [{'k': 'assign', 'd': ['a'], 'u': ['p']}]]},
     '@fp.fpy\ndef {name}(p: fp.Real, c1: fp.Real):\n    if c1 > 0:\n        a = 1\n    else:\n        a = p + 1\n    return a + p'),
    ({'params': ['p'], 'kinds': ['c'], 'blocks': [[{'k': 'if', 'u': [], 'c': 1, 't': 2, 'f': 0}], [{'k': 'ret', 'u': []}]]},
     '@fp.fpy\ndef {name}(p: fp.Real, c1: fp.Real):\n    if c1 > 0:\n        return p'),
]


def classify(fn, vec):
    try:
        r = fn(*vec)
    except (NameError, UnboundLocalError, KeyError):
        return 'unbound'
    except TypeError as e:
        # control fell off the end: the compiled body returned None, which the boundary conversion refuses
        if 'not an FPy value: None' in str(e):
            return 'falloff'
        return 'othererr:TypeError'
    except Exception as e:      # noqa: BLE001
        return 'othererr:' + type(e).__name__
    return 'falloff' if r is None else 'ok'


class Sys(Builder):
    """renders a program given as a nested structure (the systematic family): the same tables and text as Builder"""

    def __init__(self):
        super().__init__(random.Random(0))

    def sblock(self, stmts, ind):
        bid = len(self.blocks)
        self.blocks.append(None)
        out, lines = [], []
        for st in stmts:
            a, ls = self.sstmt(st, ind)
            out.append(a)
            lines += ls
        if not lines:
            lines = ['    ' * ind + 'pass']
        self.blocks[bid] = out
        return bid + 1, lines

    def sstmt(self, st, ind):
        pad = '    ' * ind
        k = st[0]
        if k == 'assign':
            _, d, u = st
            if len(d) == 2:
                return {'k': 'assign', 'd': d, 'u': u}, [f'{pad}{d[0]}, {d[1]} = ({self.use_expr(u)}, 2)']
            return {'k': 'assign', 'd': d, 'u': u}, [f'{pad}{d[0]} = {self.use_expr(u)}']
        if k == 'ret':
            return {'k': 'ret', 'u': st[1]}, [f'{pad}return {self.use_expr(st[1], "p")}']
        if k == 'compleak':
            # a comprehension binds e inside the statement; the statement also reads e outside it: the scoping model sees a plain read
            _, where, d = st
            if where == 'assign':
                return {'k': 'assign', 'd': [d], 'u': ['e']}, [f'{pad}{d} = sum([e for e in range(2)]) + e']
            if where == 'ret':
                return {'k': 'ret', 'u': ['e']}, [f'{pad}return sum([e for e in range(2)]) + e + p']
            if where == 'tuple':
                return {'k': 'assign', 'd': [d], 'u': ['e']}, [f'{pad}{d} = (len([e for e in range(2)]), e)']
            raise AssertionError(where)
        if k == 'callret':
            # the callee name is a LOCAL (it shadows the module-level function of that name)
            self.uses_call = True
            return {'k': 'ret', 'u': [st[1]]}, [f'{pad}return {st[1]}(p)']
        if k == 'callassign':
            self.uses_call = True
            return {'k': 'assign', 'd': [st[1]], 'u': [st[2]]}, [f'{pad}{st[1]} = {st[2]}(p)']
        if k == 'comp':
            _, d, u = st
            return ({'k': 'comp', 'd': [d], 'cv': 'e', 'u': ['e'] + u, 'iu': []}, [f'{pad}{d} = [{self.use_expr(["e"] + u)} for e in range(2)]'])
        if k == 'if':
            _, u, th, el = st
            c = self.slot('c')
            t, tl = self.sblock(th, ind + 1)
            lines = [f'{pad}if c{c}{self.zero_expr(u)} > 0:'] + tl
            f = 0
            if el is not None:
                f, fl = self.sblock(el, ind + 1)
                lines += [f'{pad}else:'] + fl
            return {'k': 'if', 'u': u, 'c': c, 't': t, 'f': f}, lines
        if k == 'for':
            _, d, u, body = st
            n = self.slot('n')
            b, bl = self.sblock(body, ind + 1)
            return ({'k': 'for', 'd': d, 'u': u, 'n': n, 'b': b}, [f'{pad}for {d[0] if d else "_"} in range(n{n}{self.zero_expr(u)}):'] + bl)
        if k == 'while':
            _, u, body = st
            n = self.slot('n')
            self.nw += 1
            w = f'w{self.nw}'
            b, bl = self.sblock(body, ind + 1)
            return ({'k': 'while', 'u': u, 'n': n, 'b': b},
                    [f'{pad}{w} = 0', f'{pad}while {w}{self.zero_expr(u)} < n{n}:', f'{pad}    {w} = {w} + 1'] + bl)
        if k == 'with':
            _, d, body = st
            b, bl = self.sblock(body, ind + 1)
            return ({'k': 'with', 'd': d, 'u': [], 'b': b}, [f'{pad}with fp.REAL{" as " + d[0] if d else ""}:'] + bl)
        raise AssertionError(k)


def systematic():
    """every way a name can be bound only inside a construct and read in its own header / after it / at the end,
    and every construct whose body returns standing last"""
    A = ('assign', ['a'], [])
    R0, RA = ('ret', []), ('ret', ['a'])
    progs = []
    inner = {
        'if1': lambda body: ('if', [], body, None),
        'ifelse-one-arm': lambda body: ('if', [], body, [('assign', ['b'], [])]),
        'ifelse-both': lambda body: ('if', [], body, body),
        'for-body': lambda body: ('for', [], [], body),
        'for-e': lambda body: ('for', ['e'], [], body),
        'while': lambda body: ('while', [], body),
        'with': lambda body: ('with', [], body),
        'with-as': lambda body: ('with', ['b'], body),
    }
    for nm, mk in inner.items():
        progs.append([mk([A]), RA])                                   # bound inside, read after
        progs.append([mk([A]), ('assign', ['b'], ['a']), R0])
        progs.append([mk([R0])])                                       # a body that returns, standing last
        progs.append([mk([A, R0])])
        progs.append([mk([mk([A])]), RA])                              # two levels
        progs.append([A, mk([('assign', ['a'], ['a'])]), RA])          # bound before: fine
        progs.append([mk([mk([R0])])])
    # read in the construct's own header
    progs.append([('while', ['a'], [A]), R0])
    progs.append([('while', ['a'], [A]), RA])
    progs.append([('for', [], ['a'], [A]), R0])
    progs.append([('for', ['a'], ['a'], []), R0])
    progs.append([('if', ['a'], [A], None), R0])
    progs.append([('if', ['a'], [A], [A]), RA])
    progs.append([('for', ['a'], [], [('assign', ['b'], ['a'])]), ('ret', ['b'])])
    progs.append([('for', ['a'], [], []), RA])
    progs.append([('with', ['a'], [('assign', ['b'], ['a'])]), ('ret', ['a', 'b'])])
    progs.append([('comp', 'b', []), ('ret', ['e'])])
    progs.append([('comp', 'b', ['a']), R0])
    progs.append([('comp', 'a', []), RA])
    progs.append([('assign', ['a', 'b'], []), ('ret', ['a', 'b'])])
    progs.append([('if', [], [R0], [R0])])
    progs.append([('if', [], [R0], [A]), RA])
    progs.append([('if', [], [A], [R0]), RA])
    progs.append([('while', [], [('if', [], [R0], None)])])
    progs.append([('for', [], [], [('if', [], [R0], [R0])])])
    progs.append([('while', [], [('if', [], [A], None), RA]), R0])
    progs.append([('for', [], [], [('if', [], [A], [A]), ('assign', ['b'], ['a'])]), R0])
    # a comprehension target read outside the comprehension, in the same statement
    progs.append([('compleak', 'ret', '')])
    progs.append([('compleak', 'assign', 'b'), ('ret', ['b'])])
    progs.append([('compleak', 'tuple', 'b'), R0])
    progs.append([('if', [], [('compleak', 'assign', 'b')], [('assign', ['b'], [])]), ('ret', ['b'])])
    progs.append([('assign', ['e'], []), ('compleak', 'ret', '')])              # bound before: fine
    # a name in call position that is a local bound on some paths only (it shadows a module-level function)
    progs.append([('if', [], [('assign', ['hcall'], [])], None), ('callret', 'hcall')])
    progs.append([('for', ['hcall'], [], []), ('callret', 'hcall')])
    progs.append([('callassign', 'b', 'hcall'), ('assign', ['hcall'], []), ('ret', ['b'])])
    progs.append([('while', [], [('assign', ['hcall'], [])]), ('callassign', 'b', 'hcall'), ('ret', ['b'])])
    out = []
    for pr in progs:
        b = Sys()
        b.uses_call = False
        _, lines = b.sblock(pr, 1)
        params = ['p'] + [f'{k}{i + 1}' for i, k in enumerate(b.kinds)]
        head = ['@fp.fpy', 'def hcall(x: fp.Real):', '    return x + 1', ''] if b.uses_call else []
        text = '\n'.join(head + ['@fp.fpy', 'def {name}(' + ', '.join(x + ': fp.Real' for x in params) + '):'] + lines)
        out.append(({'params': ['p'] + [f'w{i + 1}' for i in range(b.nw)], 'blocks': b.blocks, 'kinds': b.kinds}, text))
    return out


ALLHAND = HAND + systematic()


def record(job):
    seed, lo, hi = job
    work = tempfile.mkdtemp(prefix='verif-c15-')
    out = []
    try:
        for i in range(lo, hi):
            rng = random.Random(seed * 100003 + i)
            name = f's{i}'
            if i < len(ALLHAND):
                absp, text = ALLHAND[i]
                text = text.replace('{name}', name)
                absp = json.loads(json.dumps(absp))
            else:
                absp, text = make_program(rng, name)
            funcs, rej = gen_prog.load_programs({name: text}, work, f'c15_{seed}_{i}')
            accepted = name in funcs
            kinds = absp.pop('kinds')
            combos = list(itertools.product(*[(0, 1) if k == 'c' else (0, 1, 2) for k in kinds])) or [()]
            if len(combos) > 36:
                combos = rng.sample(combos, 36)
            steer = []
            for cb in combos:
                o = 'ok'
                if accepted:
                    o = classify(funcs[name], [1.0] + [float(v) for v in cb])
                steer.append({'v': list(cb), 'out': o})
            absp.update({'pid': i, 'accepted': accepted, 'steer': steer, 'src': text,
                         'reject': rej.get(name, '')})
            out.append(absp)
    finally:
        shutil.rmtree(work, ignore_errors=True)
    return out


def run(tier: str) -> int:
    rep = core.Report('C15', tier)
    n = 1200 if tier == 'quick' else 20000
    step = 100
    jobs = [(core.seed(), i, min(n, i + step)) for i in range(0, n, step)]
    progs = [p for ps in core.pool_map(record, jobs, chunksize=1) for p in ps]
    # TLC
    nsh = core.NCPU
    work = tempfile.mkdtemp(prefix='verif-c15tlc-')
    try:
        files = []
        for i in range(nsh):
            fp_ = os.path.join(work, f'sc{i}.ndjson')
            with open(fp_, 'w') as f:
                for p in progs[i::nsh]:
                    f.write(json.dumps({k: v for k, v in p.items() if k not in ('src', 'reject')}, separators=(',', ':')) + '\n')
            files.append(fp_)
        import concurrent.futures as cf

        def one(i):
            return core.run_tlc('Scoping', 'Scoping', env={'PROG_FILE': files[i]}, workers=1, timeout=3000)
        with cf.ThreadPoolExecutor(max_workers=core.NCPU) as ex:
            results = list(ex.map(one, range(nsh)))
    finally:
        shutil.rmtree(work, ignore_errors=True)
    by = {p['pid']: p for p in progs}
    for i, r in enumerate(results):
        if not r.ok:
            print('MACHINERY: Scoping failed\n' + r.error[:2000])
            return 2
        rep.add_tlc(r.generated, r.distinct)
        for ln in r.prints:
            t = core.parse_tuple(ln)
            if t and t[0] == 'MM':
                pid, sid, clause = t[1], t[2], t[3]
                p = by[pid]
                rep.mismatch({'clause': clause}, {'src': p['src'], 'steer': p['steer'][sid - 1] if sid else None,
                                                  'clause': clause, 'model_status': t[4]})
    # the real interpreter must not fail for another reason either (that would hide an unbound read)
    other = Counter(s['out'] for p in progs for s in p['steer'] if s['out'].startswith('othererr'))
    acc = sum(1 for p in progs if p['accepted'])
    rep.cov.update({'programs': len(progs), 'accepted_by_front_end': acc, 'rejected_by_front_end': len(progs) - acc,
                    'evaluations': sum(len(p['steer']) for p in progs if p['accepted']),
                    'traces_validated_against_impl': sum(len(p['steer']) for p in progs if p['accepted']),
                    'distinct_nontrivial': len({json.dumps(p['blocks']) for p in progs if len(p['blocks']) > 1}),
                    'other_errors': dict(other),
                    'rule': 'seeded programs of the bounded grammar (<= 4 statements per block, depth <= 2, names a/b/e) + the guide\'s examples + a systematic family (names bound only inside each construct, read in its header / after it; returning bodies standing last); '
                            'every combination of branch outcomes and trip counts 0/1/2 (<= 36 per program); non-trivial = has a nested block'})
    for p in progs[:3]:
        rep.sample({'src': p['src'], 'accepted': p['accepted'], 'steer': p['steer'][:2]})
    return rep.finish()


def replay(path: str) -> int:
    print(json.dumps(json.loads(open(path).read()), indent=1)[:4000])
    return 0
