"""
C14 -- Format inference bounds every run-time value.

Part A (abstract arithmetic, mode V): the real AbstractFormat operators (+, -, *, neg, abs, |, &, <=), exact_binop /
exact_unop on SetFormat / Format mixes, round_is_identity and AbstractFormat.from_format are run on a pool of small
abstract formats, value sets and contexts; every answer is judged by spec/AbsFormat.tla against ALL pairs of members
(declarative membership, exact arithmetic of Arith, rounding oracle of Rounding).

Part B (program level): generated programs are analysed by the real FormatInfer.analyze under a pinned caller context
and pinned argument formats; the inferred bound of every assignment and return of the main function travels with the
exported statement, and spec/FmtMachine.tla checks, while the abstract machine runs the program on every argument
vector drawn from the argument formats, that each bound contains the value (and judges the outcome against the
real interpreter).
"""
from __future__ import annotations

import itertools
import operator
import random
import shutil
import tempfile
from collections import Counter
from fractions import Fraction

import fpy2 as fp
from fpy2.analysis import DefineUse
from fpy2.analysis.format_infer import (AbstractFormat, FormatInfer, FunctionFormat, ListFormat, SetFormat, exact_binop, exact_unop,
                                        round_is_identity)
from fpy2.analysis.format_infer.analysis import NEG_ZERO, Special
from fpy2.ast import fpyast as A
from fpy2.number import Float, RealFloat

from .. import core, gen_prog, progrun
from ..export import OutOfDomain, ctx_json, num_json
from ..export_prog import Unsupported, export_program, value_json
from ..fmt_export import af_json, fmt_json

RM = fp.RM
OV = fp.OV if hasattr(fp, 'OV') else None


def R(x) -> RealFloat:
    q = Fraction(x)
    e = -(q.denominator.bit_length() - 1)
    return RealFloat(s=q < 0, c=abs(q.numerator), exp=e)


def small_contexts(tier: str):
    from fpy2.number.context.efloat import EFloatContext, EFloatNanKind
    from fpy2.number.round import OverflowMode as O
    out = [fp.MPFloatContext(1), fp.MPFloatContext(2), fp.MPFloatContext(3), fp.MPSFloatContext(2, -1), fp.MPSFloatContext(3, -2),
           fp.MPBFloatContext(2, -1, R(3)), fp.MPBFloatContext(3, -2, R(7)), fp.IEEEContext(2, 4), fp.IEEEContext(3, 5),
           fp.IEEEContext(2, 5, RM.RTZ), fp.MPFixedContext(-2), fp.MPFixedContext(0), fp.MPFixedContext(1),
           fp.MPFixedContext(-1, enable_neg_zero=False), fp.MPFixedContext(-1, enable_nan=True, enable_inf=True),
           fp.MPBFixedContext(-1, R(7)), fp.MPBFixedContext(-2, R(3), neg_maxval=R(-1)), fp.MPBFixedContext(-1, R(6), enable_neg_zero=False),
           fp.FixedContext(True, 0, 4), fp.FixedContext(False, 0, 3), fp.FixedContext(True, -1, 4), fp.FixedContext(True, 1, 3),
           fp.SMFixedContext(0, 4), fp.SMFixedContext(-1, 4), fp.ExpContext(3, 0), fp.ExpContext(2, 1),
           EFloatContext(2, 4, False, EFloatNanKind.NONE, 0), EFloatContext(3, 5, True, EFloatNanKind.MAX_VAL, 0),
           EFloatContext(2, 5, True, EFloatNanKind.NEG_ZERO, 1), fp.REAL]
    return out


def af_pool(tier: str, rng: random.Random):
    """(label, bound) -- AbstractFormats from contexts, synthesized ones, and value sets"""
    pool = []
    for c in small_contexts(tier):
        if c is fp.REAL:
            continue
        try:
            pool.append((f'from:{c}', AbstractFormat.from_format(c.format())))
        except Exception:       # noqa: BLE001
            pass
    inf = float('inf')
    synth = []
    for prec in (1, 2, 3, inf):
        for exp in (-2, -1, 0, 1, -inf):
            for (pb, nb) in ((R(1), None), (R(1.5), None), (R(3), R(-1)), (R(4), R(0)), (R(6), R(-8)), (inf, None), (R(2), -inf), (R(0), R(-3))):
                for flags in ((0, 0, 0, 0), (1, 1, 1, 1), (0, 0, 0, 1), (1, 0, 0, 0), (0, 1, 1, 0)):
                    try:
                        a = AbstractFormat(prec, exp, pb, neg_bound=nb, has_pos_inf=bool(flags[0]), has_neg_inf=bool(flags[1]),
                                           has_nan=bool(flags[2]), has_neg_zero=bool(flags[3]))
                        synth.append((f'A({prec},{exp},{pb},{nb},{flags})', a))
                    except Exception:       # noqa: BLE001
                        pass
    rng.shuffle(synth)
    pool += synth[: (60 if tier == 'quick' else 400)]
    # shapes at the edge of "nothing but zero": bounds within one quantum of zero
    for (pb, nb, exp) in ((R(1), R(-1), 0), (R(1), R(0), 0), (R(0), R(-1), 0), (R(0.5), R(-0.5), -1), (R(2), R(-2), 1), (R(1), R(-1), 1)):
        pool.append((f'A(inf,{exp},{pb},{nb})', AbstractFormat(float('inf'), exp, pb, neg_bound=nb)))
    F = Fraction
    sets = [{F(0)}, {NEG_ZERO}, {F(1)}, {F(0), F(1), F(-1)}, {F(1, 2), F(3)}, {Special.POS_INF}, {Special.NAN, F(2)},
            {NEG_ZERO, F(0)}, {F(-2), F(5, 4)}, {Special.NEG_INF, F(1)}, {F(2)}]
    pool += [(f'set:{sorted(map(repr, s))}', SetFormat(frozenset(s))) for s in sets]
    return pool


def record_abstract(tier: str, rng: random.Random):
    recs, stats = [], Counter()
    pool = af_pool(tier, rng)
    js = {}
    for lbl, a in pool:
        try:
            js[lbl] = fmt_json(a, relax=False)
        except OutOfDomain:
            stats['pool-out-of-domain'] += 1
    pool = [(l, a) for l, a in pool if l in js]

    def emit(rec, **src):
        rec['src'] = src
        recs.append(rec)

    def res_json(r):
        return fmt_json(r, relax=False)

    pairs = list(itertools.product(pool, pool))
    rng.shuffle(pairs)
    npairs = 700 if tier == 'quick' else 12000
    binops = (('add', operator.add), ('sub', operator.sub), ('mul', operator.mul))
    for (la, a), (lb, b) in pairs[:npairs]:
        for name, op in binops:
            try:
                if isinstance(a, AbstractFormat) and isinstance(b, AbstractFormat):
                    r = op(a, b)
                    how = 'AbstractFormat.__%s__' % name
                else:
                    r = exact_binop(a, b, op)
                    how = 'exact_binop'
                emit({'t': 'op2', 'op': name, 'a': js[la], 'b': js[lb], 'r': res_json(r)}, a=la, b=lb, how=how, result=str(r))
            except OutOfDomain:
                stats['result-out-of-domain'] += 1
            except Exception as e:      # noqa: BLE001
                stats[f'{name}:{type(e).__name__}'] += 1
        if isinstance(a, AbstractFormat) and isinstance(b, AbstractFormat):
            try:
                emit({'t': 'or', 'a': js[la], 'b': js[lb], 'r': res_json(a | b)}, a=la, b=lb, how='|')
                emit({'t': 'and', 'a': js[la], 'b': js[lb], 'r': res_json(a & b)}, a=la, b=lb, how='&')
                emit({'t': 'le', 'a': js[la], 'b': js[lb], 'res': bool(a <= b)}, a=la, b=lb, how='<=')
            except OutOfDomain:
                stats['result-out-of-domain'] += 1
            except Exception as e:      # noqa: BLE001
                stats[f'lattice:{type(e).__name__}'] += 1
    for la, a in pool:
        for name, op, sop in (('neg', operator.neg, 'neg'), ('fabs', operator.abs, 'abs')):
            try:
                r = op(a) if isinstance(a, AbstractFormat) else exact_unop(a, op)
                emit({'t': 'op1', 'op': name, 'a': js[la], 'r': res_json(r)}, a=la, how=sop, result=str(r))
            except OutOfDomain:
                stats['result-out-of-domain'] += 1
            except Exception as e:      # noqa: BLE001
                stats[f'{name}:{type(e).__name__}'] += 1
    # format(): the concrete Format an abstract one materializes to is a superset
    for la, a in pool:
        if isinstance(a, AbstractFormat):
            try:
                f = a.format()
                emit({'t': 'le', 'a': js[la], 'b': fmt_json(f, relax=False), 'res': True}, a=la, how='AbstractFormat.format()', result=str(f))
            except OutOfDomain:
                stats['result-out-of-domain'] += 1
            except Exception as e:      # noqa: BLE001  -- no Format expresses it: a refusal
                stats[f'format():{type(e).__name__}'] += 1
    # round_is_identity, from_format
    ctxs = small_contexts(tier)
    for c in ctxs:
        try:
            cj = ctx_json(c)
        except OutOfDomain:
            continue
        if c is not fp.REAL:
            try:
                emit({'t': 'from', 'ctx': cj, 'r': res_json(AbstractFormat.from_format(c.format()))}, ctx=str(c), how='from_format')
            except (OutOfDomain, ValueError, TypeError):
                stats['from-not-abstractable'] += 1
        for la, a in pool:
            try:
                emit({'t': 'ident', 'ctx': cj, 'a': js[la], 'res': bool(round_is_identity(a, c))}, a=la, ctx=str(c), how='round_is_identity')
            except Exception as e:      # noqa: BLE001
                stats[f'ident:{type(e).__name__}'] += 1
    # derived: the exact image of an operation under a context, then identity (what elim_round asks)
    for (la, a), (lb, b) in pairs[: npairs // 2]:
        for c in ctxs[::3]:
            for name, op in binops:
                try:
                    u = exact_binop(a, b, op)
                    if u is None:
                        continue
                    uj = res_json(u)
                    emit({'t': 'op2', 'op': name, 'a': js[la], 'b': js[lb], 'r': uj}, a=la, b=lb, how='exact_binop')
                    emit({'t': 'ident', 'ctx': ctx_json(c), 'a': uj, 'res': bool(round_is_identity(u, c))}, a=str(u), ctx=str(c),
                         how='round_is_identity(exact_binop)')
                except OutOfDomain:
                    stats['result-out-of-domain'] += 1
                except Exception as e:      # noqa: BLE001
                    stats[f'derived:{type(e).__name__}'] += 1
    return recs, stats


# ---------------------------------------------------------------------------------------------------------------
# Part B

ARGCTX = [fp.FixedContext(True, 0, 4), fp.FixedContext(False, 0, 3), fp.FixedContext(True, -1, 4), fp.IEEEContext(2, 4),
          fp.MPSFloatContext(2, -1), fp.SMFixedContext(0, 3)]
SCOPES = [fp.FixedContext(True, 0, 8), fp.IEEEContext(3, 6), fp.MPFixedContext(-2), fp.MPFloatContext(3), fp.REAL,
          fp.FixedContext(True, -1, 6, RM.RTZ), fp.IEEEContext(2, 5, RM.RTN), fp.MPBFixedContext(-1, R(15))]

PROFILES = [
    {'loops': 0.2, 'lists': 0.1, 'with': 0.15, 'calls': 0.0, 'early_return': 0.1, 'stmts': (2, 6)},
    {'loops': 0.35, 'lists': 0.25, 'with': 0.25, 'calls': 0.0, 'tuples': 0.1, 'stmts': (3, 7)},
]

HAND = {
    'hand_neg': '''@fp.fpy
def hand_neg(x: fp.Real, y: fp.Real, xs: list[fp.Real], k: fp.Real):
    a = -x
    b = a * y
    c = b - b
    return (a, b, c)''',
    'hand_loop': '''@fp.fpy
def hand_loop(x: fp.Real, y: fp.Real, xs: list[fp.Real], k: fp.Real):
    acc = 0
    with fp.REAL:
        for e in xs:
            acc = acc + e * y
    z = fp.round(acc)
    return (acc, z)''',
    'hand_branch': '''@fp.fpy
def hand_branch(x: fp.Real, y: fp.Real, xs: list[fp.Real], k: fp.Real):
    if x > 1:
        r = x * x
    else:
        r = -y
    t = r + 1
    if t < 0:
        t = -t
    return (r, t)''',
    'hand_while': '''@fp.fpy
def hand_while(x: fp.Real, y: fp.Real, xs: list[fp.Real], k: fp.Real):
    i = 0
    s = x
    with fp.REAL:
        while i < k:
            s = s + s
            i = i + 1
    return (s, i)''',
    'hand_refine': '''@fp.fpy
def hand_refine(x: fp.Real, y: fp.Real, xs: list[fp.Real], k: fp.Real):
    a = 0
    b = 0
    c = 1
    d = 0
    with fp.REAL:
        if 2 < x:
            a = x * 1
        if not (-2 <= y):
            b = y + 0
        if x > 1:
            c = x - 0
        if 1 >= y:
            d = y * 1
        if 1 < x < 3:
            e = x + 0
        else:
            e = 0
    return (a, b, c, d, e)''',
    'hand_clamp': '''@fp.fpy
def hand_clamp(x: fp.Real, y: fp.Real, xs: list[fp.Real], k: fp.Real):
    a = min(max(x, -1), 1)
    b = max(min(y, 2), 0)
    with fp.REAL:
        c = a + b
        d = min(max(x, 0), 1) * 1
    return (a, b, c, d)''',
    'hand_underflow1': '''@fp.fpy
def hand_underflow1(x: fp.Real, y: fp.Real, xs: list[fp.Real], k: fp.Real):
    a = x * 0.0078125
    return a''',
    'hand_underflow2': '''@fp.fpy
def hand_underflow2(x: fp.Real, y: fp.Real, xs: list[fp.Real], k: fp.Real):
    b = y * 0.001953125
    return b''',
    'hand_underflow3': '''@fp.fpy
def hand_underflow3(x: fp.Real, y: fp.Real, xs: list[fp.Real], k: fp.Real):
    c = x * 0.03125
    d = c + y * 0.015625
    return (c, d)''',
    'hand_overflow_sub': '''@fp.fpy
def hand_overflow_sub(x: fp.Real, y: fp.Real, xs: list[fp.Real], k: fp.Real):
    a = x - 12
    b = y * -3
    return (a, b)''',
    'hand_overflow_mul': '''@fp.fpy
def hand_overflow_mul(x: fp.Real, y: fp.Real, xs: list[fp.Real], k: fp.Real):
    c = x * 512
    return c''',
    'hand_overflow_neg': '''@fp.fpy
def hand_overflow_neg(x: fp.Real, y: fp.Real, xs: list[fp.Real], k: fp.Real):
    d = 0 - abs(y) * 4
    return d''',
    'hand_call_loop': '''@fp.fpy
def hand_cl_ident(t: fp.Real) -> fp.Real:
    return t

@fp.fpy
def hand_cl_dbl(t: fp.Real) -> fp.Real:
    with fp.REAL:
        r = t + t
    return r

@fp.fpy
def hand_call_loop(x: fp.Real, y: fp.Real, xs: list[fp.Real], k: fp.Real):
    t = 0
    a = 0
    for _ in range(3):
        a = hand_cl_ident(t)
        t = x
    u = y
    with fp.REAL:
        for _ in range(k):
            u = hand_cl_dbl(u)
    i = 0
    w = 0
    b = 0
    while i < k:
        b = hand_cl_ident(w)
        with fp.REAL:
            w = w + y
            i = i + 1
    return (a, u, b)''',
    'hand_callee_writes': '''@fp.fpy
def hand_cw_put(zs: list[fp.Real], a: fp.Real) -> fp.Real:
    with fp.REAL:
        zs[0] = a * 0.1
    return a

@fp.fpy
def hand_callee_writes(x: fp.Real, y: fp.Real, xs: list[fp.Real], k: fp.Real):
    us = [x, y]
    t = hand_cw_put(us, k)
    a = us[0]
    acc = t
    for e in us:
        acc = e
    return (a, acc)''',
    'hand_running_max': '''@fp.fpy
def hand_running_max(x: fp.Real, y: fp.Real, xs: list[fp.Real], k: fp.Real):
    with fp.REAL:
        lo = -fp.inf()
        m = max(lo, x)
        for e in xs:
            m = max(m, e)
        hi = fp.inf()
        n = min(hi, y)
    return (m, n)''',
    'hand_long_range': '''@fp.fpy
def hand_long_range(x: fp.Real, y: fp.Real, xs: list[fp.Real], k: fp.Real):
    with fp.REAL:
        a = 0
        for i in range(-20, 3):
            j = i
            a = a + j
        b = 0
        for i in range(40, 2, -2):
            j2 = i
            b = b + j2
    return (a, b)''',
    'hand_abs': '''@fp.fpy
def hand_abs(x: fp.Real, y: fp.Real, xs: list[fp.Real], k: fp.Real):
    a = abs(x)
    b = abs(x) - abs(y)
    c = max(x, y)
    d = min(-x, y)
    return (a, b, c, d)''',
}


def members(ctx, rng, n):
    """values of the (small) format of ctx: a grid filtered by the real representable_in, specials included"""
    fmt = ctx.format()
    vals = []
    for k in range(-64, 65):
        v = Float(x=R(Fraction(k, 4)))
        if fmt.representable_in(v):
            vals.append(v)
    for v in (Float(s=True, c=0, exp=0), Float(isinf=True), Float(isinf=True, s=True), Float(isnan=True)):
        if fmt.representable_in(v):
            vals.append(v)
    rng.shuffle(vals)
    return vals[:n]


def annotate(prog, pe, fn, info, def_use, stats):
    """attach the inferred bound to the exported Assign / Return statements of the main function"""
    ex = pe.exporters[prog['main']]
    by_nid = {}

    def walk(node):
        if isinstance(node, A.Ast):
            by_nid[ex.ids.get(id(node), -1)] = node
            from ..export_prog import _slots
            for s in _slots(node):
                walk(getattr(node, s, None))
        elif isinstance(node, (list, tuple)):
            for x in node:
                walk(x)
    walk(fn.ast.body)
    n = 0
    for blk in prog['funcs'][prog['main']]['blocks']:
        for st in blk:
            node = by_nid.get(st.get('id', -1))
            if node is None:
                continue
            if st['k'] == 'Assign' and isinstance(node, A.Assign) and st['t']['k'] == 'name':
                d = def_use.site_to_def.get((node.target, node))
                if d is not None and d in info.by_def:
                    st['fmt'] = fmt_json(info.by_def[d])
                    n += 1
            elif st['k'] == 'Return' and isinstance(node, A.ReturnStmt):
                if node.expr in info.by_expr:
                    st['fmt'] = fmt_json(info.by_expr[node.expr])
                    n += 1
    stats['bounds_attached'] += n
    return n


def record_programs(job):
    seed, tier, k = job
    rng = random.Random(seed * 1009 + k)
    work = tempfile.mkdtemp(prefix='verif-c14-')
    out, stats = [], Counter()
    try:
        progs = []
        if k == 0:
            hf, _ = gen_prog.load_programs(HAND, work, 'c14hand')
            progs += [(n, f, HAND[n]) for n, f in hf.items()]
        nprog = 6 if tier == 'quick' else 40
        prof = PROFILES[k % len(PROFILES)]
        srcs, funcs, rej = progrun.generate_and_load(seed * 31 + k, nprog, prof, work, f'c14_{k}_')
        stats['rejected_by_front_end'] += len(rej)
        progs += [(n, f, srcs[n]) for n, f in funcs.items()]
        for (name, f, src) in progs:
            hand = name in HAND
            for trial in range(len(SCOPES) if hand else (2 if tier == 'quick' else 4)):
                actx = ARGCTX[trial % 3] if hand else rng.choice(ARGCTX)
                scope = SCOPES[trial] if hand else rng.choice(SCOPES)
                afmt = actx.format()
                kset = SetFormat(frozenset(Fraction(i) for i in (1, 2, 3)))
                fnf = FunctionFormat(scope, (afmt, afmt, ListFormat(afmt), kset), None)
                try:
                    du = DefineUse.analyze(f.ast)
                    info = FormatInfer.analyze(f.ast, def_use=du, fn_fmt=fnf)
                except Exception as e:      # noqa: BLE001
                    stats[f'analysis-refused:{type(e).__name__}'] += 1
                    continue
                try:
                    prog, pe = export_program(f, 0)
                except (Unsupported, OutOfDomain) as e:
                    stats['unsupported'] += 1
                    break
                if annotate(prog, pe, f, info, du, stats) == 0:
                    continue
                vals = members(actx, rng, 40)
                ins = []
                nvec = 24 if tier == 'quick' else 60
                for i in range(nvec):
                    L = i % 4
                    args = [rng.choice(vals), rng.choice(vals), [rng.choice(vals) for _ in range(L)], rng.choice([1, 2, 3])]
                    try:
                        aj = [value_json(a) for a in args]
                    except (OutOfDomain, Unsupported):
                        continue
                    o = progrun.run_real(f, args, scope)
                    if 'ood' in o:
                        continue
                    ins.append({'args': aj, 'ctx': [ctx_json(scope)], 'out': o})
                prog['inputs'] = ins
                prog['src'] = src
                prog['cfgsrc'] = {'scope': str(scope), 'arg_format': str(actx), 'program': name}
                out.append(prog)
    finally:
        shutil.rmtree(work, ignore_errors=True)
    return out, stats


def record_traces14(job):
    """Statement-level traces of the REAL interpreter under a pinned scope, with the inferred format of every definition and of the
    returned expression as facts (spec/StmtTrace.tla): also for programs with calls and constructs the machine does not model."""
    from .. import linetrace
    from ..equiv import apply_transform
    seed, tier, k = job
    rng = random.Random(seed * 1013 + k)
    work = tempfile.mkdtemp(prefix='verif-c14t-')
    progs, runs, stats = [], [], Counter()
    try:
        cand = []
        if k == 0:
            hf, _ = gen_prog.load_programs(HAND, work, 'c14thand')
            cand += [(n, f, HAND[n]) for n, f in hf.items()]
        prof = dict(PROFILES[k % len(PROFILES)])
        prof['calls'] = 0.15
        prof['helper_kinds'] = ['rr']       # callees that store into a list argument are the known finding of hand_callee_writes
        srcs, funcs, rej = progrun.generate_and_load(seed * 43 + k, 6 if tier == 'quick' else 30, prof, work, f'c14t_{k}_')
        cand += [(n, f, srcs[n]) for n, f in funcs.items()]
        for (name, f, src) in cand:
            hand = name in HAND
            for trial in range(len(SCOPES) if hand else 2):
                actx = ARGCTX[trial % 3] if hand else rng.choice(ARGCTX)
                scope = SCOPES[trial] if hand else rng.choice(SCOPES)
                afmt = actx.format()
                kset = SetFormat(frozenset(Fraction(i) for i in (1, 2, 3)))
                fnf = FunctionFormat(scope, (afmt, afmt, ListFormat(afmt), kset), None)
                try:
                    du = DefineUse.analyze(f.ast)
                    info = FormatInfer.analyze(f.ast, def_use=du, fn_fmt=fnf)
                except Exception as e:      # noqa: BLE001
                    stats[f'analysis-refused:{type(e).__name__}'] += 1
                    continue

                def fod(d, info=info):
                    try:
                        return fmt_json(info.by_def[d]) if d in info.by_def else None
                    except (Unsupported, OutOfDomain):
                        return None

                def foe(e, info=info):
                    try:
                        return fmt_json(info.by_expr[e]) if e in info.by_expr else None
                    except (Unsupported, OutOfDomain):
                        return None
                st, si = apply_transform(lambda: linetrace.static_info(f, fmt_of_def=fod, fmt_of_expr=foe), limit=30)
                if st != 'ok':
                    stats[f'not-traced:{str(si).split(":")[0]}'] += 1
                    continue
                si['src'] = src
                si['cfgsrc'] = {'scope': str(scope), 'arg_format': str(actx), 'program': name}
                kl = set(si['lines'])
                wl = {l for l, r_ in si['lines'].items() if r_['k'] == 'with'}
                vals = members(actx, rng, 40)
                for i in range(12 if tier == 'quick' else 30):
                    args = [rng.choice(vals), rng.choice(vals), [rng.choice(vals) for _ in range(i % 4)], rng.choice([1, 2, 3])]
                    r = linetrace.record_run(f, args, scope, known_lines=kl, with_lines=wl)
                    if r is None:
                        continue
                    runs.append({'prog': len(progs), 'ev': r['ev'], 'ret': r['ret'], 'exc': r['exc'], 'mut': r['mut'], 'cx0': r['cx0'],
                                 'args': repr(args)[:300]})
                progs.append(si)
    finally:
        shutil.rmtree(work, ignore_errors=True)
    return progs, runs, stats


def run(tier: str) -> int:
    rep = core.Report('C14', tier)
    rng = random.Random(core.seed() * 13 + 1)
    stats = Counter()
    # ---- part A
    recs, st = record_abstract(tier, rng)
    stats.update(st)
    for i, r in enumerate(recs):
        r['tid'] = i
    out = core.validate_trace('AbsFormatTrace', [{k: v for k, v in r.items() if k != 'src'} for r in recs])
    rep.add_tlc(out.generated, out.distinct)
    by = {r['tid']: r for r in recs}
    for mm in out.mismatches:
        r = by[mm[0]]
        rep.mismatch({'clause': mm[1], 'how': r['src'].get('how', '')}, r)
    # ---- part B
    jobs = [(core.seed(), tier, k) for k in range(4 if tier == 'quick' else 12)]
    res = core.pool_map(record_programs, jobs, chunksize=1)
    progs = []
    for ps, st in res:
        stats.update(st)
        for p in ps:
            p['pid'] = len(progs)
            progs.append(p)
    mm, skips, gen, dis = progrun.run_machine(progs, cfg='FmtMachine', module='FmtMachine')
    rep.add_tlc(gen, dis)
    byp = {p['pid']: p for p in progs}
    fmt_clauses = ('inferred-format-misses-value', 'inferred-format-misses-negative-zero')
    keep = [m for m in mm if m[2] in fmt_clauses]
    mm2, skips = progrun.split_big(byp, [m for m in mm if m[2] not in fmt_clauses], skips)
    for (pid, idx, clause, what) in keep + mm2:
        p = byp[pid]
        key = {'clause': clause}
        if clause == 'inferred-format-misses-negative-zero':
            # the sign-of-zero rule of abstract negation / multiplication (part A names it exactly) leaks into every program using them
            key['neg_or_mul'] = any(t in p['src'] for t in ('-', '*', 'fma'))
        if clause == 'inferred-format-misses-value':
            # sum([x]) is x itself, unrounded (derived semantics); the analysis gives sum(xs) the scope's format
            key['sum_in_program'] = 'sum(' in p['src']
            if 'def hand_callee_writes(' in p['src']:
                key['program'] = 'hand_callee_writes'
        rep.mismatch(key,
                     {'program': p['src'], 'config': p['cfgsrc'], 'input': p['inputs'][idx - 1], 'clause': clause, 'where': what,
                      'bound': [(s['t'].get('n') if s['k'] == 'Assign' else 'return', s['fmt'])
                                for b in p['funcs'][p['main']]['blocks'] for s in b if 'fmt' in s and str(s.get('id')) == str(what)]})
    # --- the same bounds on statement traces of the real interpreter (programs with calls included)
    from .. import linetrace
    tprogs, truns = [], []
    for ps, rs, st in core.pool_map(record_traces14, [(core.seed(), tier, k) for k in range(2 if tier == 'quick' else 6)], chunksize=1):
        base = len(tprogs)
        stats.update({'trace:' + k_: v for k_, v in st.items()})
        tprogs += ps
        for r_ in rs:
            r_['pid'] = base + r_.pop('prog') + 1
            r_['tid'] = len(truns)
            truns.append(r_)
    if truns:
        tout = linetrace.validate([{k_: r_[k_] for k_ in ('tid', 'pid', 'ev', 'ret', 'exc', 'mut', 'cx0')} for r_ in truns], tprogs)
        rep.add_tlc(tout.generated, tout.distinct)
        for (tid, clause, what) in tout.mismatches:
            if clause not in fmt_clauses:
                continue            # facts of the other analyses and the context discipline: C13 / C04
            r_ = truns[tid]
            p = tprogs[r_['pid'] - 1]
            key = {'clause': clause}
            if clause == 'inferred-format-misses-negative-zero':
                key['neg_or_mul'] = any(t in p['src'] for t in ('-', '*', 'fma'))
            if clause == 'inferred-format-misses-value':
                key['sum_in_program'] = 'sum(' in p['src']
                if 'def hand_callee_writes(' in p['src']:
                    key['program'] = 'hand_callee_writes'
            rep.mismatch(key, {'program': p['src'], 'config': p['cfgsrc'], 'args': r_['args'], 'clause': clause, 'where': what,
                               'observed_by': 'statement trace of the real interpreter (sys.settrace)'})
    rep.cov['statement_traces'] = len(truns)
    rep.cov['statement_trace_events'] = sum(len(r_['ev']) for r_ in truns)
    runs = sum(len(p['inputs']) for p in progs)
    skipc = Counter(s[3] for s in skips)
    rep.cov.update({'abstract_records': len(recs), 'abstract_by_kind': dict(Counter(r['t'] for r in recs)),
                    'programs': len(progs), 'evaluations': len(recs) + runs,
                    'traces_validated_against_impl': len(recs) + runs - sum(skipc.values()),
                    'distinct_nontrivial': len({(r['t'], repr(r.get('a')), repr(r.get('b')), r.get('op')) for r in recs}) + len(progs),
                    'bounds_attached': stats.get('bounds_attached', 0), 'skipped_by_reason': dict(skipc), 'not_run': dict(stats),
                    'rule': 'part A: pairs of a pool of abstract formats (from small contexts of every family, a synthesized grid, value sets) '
                            'x {+,-,*,neg,abs,|,&,<=}, round_is_identity x contexts, from_format x contexts, each judged on every member pair '
                            'of a candidate grid; part B: hand + generated programs x (argument format, scope) x argument vectors drawn from '
                            'the argument format, every assignment / return bound of the main function checked at run time by the machine'})
    for r in recs[:: max(1, len(recs) // 3)][:3]:
        rep.sample(r)
    return rep.finish()


def replay(path: str) -> int:
    import json
    print(json.dumps(json.loads(open(path).read()), indent=1)[:4000])
    return 0
