"""
C08 -- Loop and iterator restructuring preserves results.

unroll_for / unroll_while (1-3 times), split (factors 2-3), both remainder strategies (STRICT only on
inputs that satisfy its divisibility precondition), elim_iter (zip / enumerate) and fuse, applied to
generated loop-heavy programs; every list length 0..7; low-precision caller contexts.  TLC runs the
original and the real transformed AST on spec/Equiv.tla for every input.
"""
from __future__ import annotations

import random
import shutil
import tempfile
from collections import Counter

import fpy2 as fp
from fpy2.transform.for_unroll import ForUnrollStrategy
from fpy2.transform.split_loop import SplitLoopStrategy

from .. import core, equiv, progrun

PROFILES = [
    {'loops': 0.45, 'lists': 0.25, 'with': 0.15, 'early_return': 0.25, 'calls': 0.05, 'stmts': (2, 6)},
    {'loops': 0.4, 'lists': 0.35, 'with': 0.2, 'tuples': 0.1, 'stmts': (2, 6)},
]

HAND = {
    'hand_factor_reassigned': '''@fp.fpy
def hand_factor_reassigned(x: fp.Real, y: fp.Real, xs: list[fp.Real], k: fp.Real):
    acc = 0
    for e in xs:
        acc = acc * 2 + e
        k = k + 1
    n = 0
    for e in xs:
        n = n + e
        k = 1
    return (acc, n, k)''',
    'hand_enumerate_capture': '''@fp.fpy
def hand_enumerate_capture(x: fp.Real, y: fp.Real, xs: list[fp.Real], k: fp.Real):
    ws = [0, 1, 2]
    a = [sum([e * i for i in ws]) for i, e in enumerate(xs)]
    b = [sum([p * q for q in ws]) + p for p, q in zip(xs, xs)]
    return (a, b)''',
    'hand_source_rebound': '''@fp.fpy
def hand_source_rebound(x: fp.Real, y: fp.Real, xs: list[fp.Real], k: fp.Real):
    ws = [[e + 1, y] for e in xs]
    ys = [e * 2 for e in xs]
    a = [sum([p * xs[0] for xs in ws]) + q for p, q in zip(xs, ys)]
    b = [sum([e + xs[1] for xs in ws]) + i for i, e in enumerate(xs)]
    return (a, b)''',
    'hand_single_zip': '''@fp.fpy
def hand_single_zip(x: fp.Real, y: fp.Real, xs: list[fp.Real], k: fp.Real):
    acc = x
    q = (y,)
    for i, p in enumerate(zip(xs)):
        acc = acc + i
        q = p
    r = (y,)
    for p in zip(xs):
        r = p
    ps = [p for i, p in enumerate(zip(xs))]
    return (acc, q, r, ps)''',
    'hand_mutate_iter': '''@fp.fpy
def hand_mutate_iter(x: fp.Real, y: fp.Real, xs: list[fp.Real], k: fp.Real):
    acc = 0
    for i, e in enumerate(xs):
        acc = acc + e
        if i + 1 < len(xs):
            xs[i + 1] = xs[i + 1] + acc
    return (acc, xs)''',
    'hand_zip_early': '''@fp.fpy
def hand_zip_early(x: fp.Real, y: fp.Real, xs: list[fp.Real], k: fp.Real):
    ys = [e * 2 for e in xs]
    acc = x
    for a, b in zip(xs, ys):
        acc = acc + a * b
        if acc > 20:
            return acc
    return acc - y''',
    'hand_nested': '''@fp.fpy
def hand_nested(x: fp.Real, y: fp.Real, xs: list[fp.Real], k: fp.Real):
    acc = 0
    for e in xs:
        for f in xs:
            acc = acc + e * f
        x = x + 1
    return acc + x''',
    'hand_while': '''@fp.fpy
def hand_while(x: fp.Real, y: fp.Real, xs: list[fp.Real], k: fp.Real):
    i = 0
    acc = y
    while i < len(xs):
        acc = acc * 2 + xs[i]
        if acc > 50:
            return i
        with fp.REAL:
            i = i + 1
    return acc''',
    'hand_anyall': '''@fp.fpy
def hand_anyall(x: fp.Real, y: fp.Real, xs: list[fp.Real], k: fp.Real):
    a = any([e > x for e in xs])
    b = all([e + y > 0 for e in xs])
    if a and not b:
        return 1
    return 0 if a else 2''',
    'hand_fuse_while': '''@fp.fpy
def hand_fuse_while(x: fp.Real, y: fp.Real, xs: list[fp.Real], k: fp.Real):
    n = 0
    while any([e > x for e in xs]) and n < 6:
        x = x + 1
        n = n + 1
    return (x, n)''',
    'hand_fuse_leak': '''@fp.fpy
def hand_fuse_leak(x: fp.Real, y: fp.Real, xs: list[fp.Real], k: fp.Real):
    a = any([x > 1 for x in xs])
    b = all([y < 2 for y in xs])
    if a and b:
        return x
    return x + y + 100''',
    'hand_fuse_nested': '''@fp.fpy
def hand_fuse_nested(x: fp.Real, y: fp.Real, xs: list[fp.Real], k: fp.Real):
    ys = [e + y for e in xs]
    first = any([e > x for e in ys])
    rest = all([any([e > x for e in ys]) for x in xs])
    if first:
        return 1 if rest else 2
    return 3 if rest else 4''',
    'hand_fuse_short': '''@fp.fpy
def hand_fuse_short(x: fp.Real, y: fp.Real, xs: list[fp.Real], k: fp.Real):
    r = 0
    if k < len(xs) and any([xs[k] > e for e in xs]):
        r = 1
    return r''',
    'hand_gensym': '''@fp.fpy
def hand_gensym(x: fp.Real, y: fp.Real, xs: list[fp.Real], k: fp.Real):
    i11 = 10
    i12 = 100
    i13 = 1000
    n = x
    m = y
    acc = 0
    for e in xs:
        acc = acc + e * i11 + i12 - i13
    return acc + n + m''',
}

SMALL = [0.5, 1.0, 1.5, -0.75, 2.0, 3.0, 0.25, -2.0, float('nan'), float('inf')]


def vectors(rng: random.Random, n: int):
    ctxs = [None, fp.REAL, fp.MPFloatContext(2), fp.MPFloatContext(3), fp.MPFixedContext(-1)]
    out = []
    for i in range(n):
        L = i % 8                                   # every length 0..7
        xs = [rng.choice(SMALL[:8] if rng.random() < 0.9 else SMALL) for _ in range(L)]
        out.append(([rng.choice([0.0, 1.0, 1.5, -1.25, 7.0]), rng.choice([0.0, 1.0, 0.375, 3]), xs, rng.choice([1, 2, 3])],
                    ctxs[(i // 8) % len(ctxs)]))
    return out


def _len_multiple(k):
    return lambda args: len(args[2]) % k == 0


def configs(tier: str):
    S = fp.strategies
    out = []
    for t in (1, 2, 3):
        out.append((f'unroll_for[{t},PEEL]', lambda f, t=t: S.unroll_for(f, None, t), None))
        out.append((f'unroll_for[{t},STRICT]', lambda f, t=t: S.unroll_for(f, None, t, strategy=ForUnrollStrategy.STRICT),
                    _len_multiple(t + 1)))
    out.append(('unroll_for[1,PEEL,where=0]', lambda f: S.unroll_for(f, 0, 1), None))
    out.append(('unroll_for[2,PEEL,where=1]', lambda f: S.unroll_for(f, 1, 2), None))
    for t in (1, 2):
        out.append((f'unroll_while[{t}]', lambda f, t=t: S.unroll_while(f, None, t), None))
    for k in (2, 3):
        out.append((f'split[{k},PEEL]', lambda f, k=k: S.split(f, k), None))
        out.append((f'split[{k},STRICT]', lambda f, k=k: S.split(f, k, strategy=SplitLoopStrategy.STRICT), _len_multiple(k)))
    out.append(('split[2,PEEL,where=0]', lambda f: S.split(f, 2, 0), None))
    # a variable factor: the parameter k (1..3 in every input vector)
    out.append(("split['k',PEEL]", lambda f: S.split(f, 'k'), None))
    out.append(("split['k',STRICT]", lambda f: S.split(f, 'k', strategy=SplitLoopStrategy.STRICT),
                lambda args: len(args[2]) % int(args[3]) == 0))
    out.append(('elim_iter', lambda f: S.elim_iter(f), None))
    out.append(('elim_iter[zip]', lambda f: S.elim_iter(f, enable_enumerate=False), None))
    out.append(('fuse', lambda f: S.fuse(f), None))
    out.append(('elim_iter;unroll_for[1,where=0]', lambda f: S.unroll_for(S.elim_iter(f), 0, 1), None))
    out.append(('split[2,where=0];unroll_for[1,where=0]', lambda f: S.unroll_for(S.split(f, 2, 0), 0, 1), None))
    # the loop named by a cursor instead of an index (the last site the strategy lists), and the remaining switches
    out.append(('unroll_for[2,PEEL,cursor=last]', lambda f: S.unroll_for(f, S.sites(S.unroll_for, f, times=2)[-1], 2), None))
    out.append(('unroll_while[2,cursor=last]', lambda f: S.unroll_while(f, S.sites(S.unroll_while, f)[-1], 2), None))
    out.append(('split[3,PEEL,cursor=last]', lambda f: S.split(f, 3, S.sites(S.split, f, factor=3)[-1]), None))
    out.append(('unroll_while[1,where=0]', lambda f: S.unroll_while(f, 0, 1), None))
    out.append(('elim_iter[enumerate]', lambda f: S.elim_iter(f, enable_zip=False), None))
    out.append(('unroll_for[1];elim_iter', lambda f: S.elim_iter(S.unroll_for(f, None, 1)), None))
    return out


def iter_source_mutated(fn) -> bool:
    """Does some `for ... in enumerate(xs) / zip(xs, ...)` loop write to xs (by name) in its body?"""
    from fpy2.ast import fpyast as A

    def names(e):
        if isinstance(e, A.Var):
            return {str(e.name)}
        if isinstance(e, (A.Enumerate, A.Zip)):
            out = set()
            for a in e.args:
                out |= names(a)
            return out
        return set()

    def writes(node):
        out = set()
        if isinstance(node, A.IndexedAssign):
            out.add(str(node.var))
        if isinstance(node, A.Ast):
            for sl in type(node).__mro__:
                for f in getattr(sl, '__slots__', ()):
                    out |= writes(getattr(node, f, None))
        elif isinstance(node, (list, tuple)):
            for x in node:
                out |= writes(x)
        return out

    def walk(node):
        if isinstance(node, A.ForStmt) and isinstance(node.iterable, (A.Enumerate, A.Zip)):
            if names(node.iterable) & writes(node.body):
                return True
        if isinstance(node, A.Ast):
            for sl in type(node).__mro__:
                for f in getattr(sl, '__slots__', ()):
                    if f in ('loc', 'fn', 'func', 'meta'):
                        continue
                    if walk(getattr(node, f, None)):
                        return True
        elif isinstance(node, (list, tuple)):
            return any(walk(x) for x in node)
        return False
    return walk(fn.ast.body)


def fuse_in_short_circuit(fn) -> bool:
    """Is some any/all over a comprehension a non-first operand of `and` / `or`?"""
    from fpy2.ast import fpyast as A

    def has_red(node):
        if isinstance(node, (A.AnyOf, A.AllOf)) and isinstance(node.arg, A.ListComp):
            return True
        return any(has_red(c) for c in kids(node))

    def kids(node):
        out = []
        if isinstance(node, A.Ast):
            for sl in type(node).__mro__:
                for f in getattr(sl, '__slots__', ()):
                    if f in ('loc', 'fn', 'func', 'meta'):
                        continue
                    v = getattr(node, f, None)
                    if isinstance(v, A.Ast):
                        out.append(v)
                    elif isinstance(v, (list, tuple)):
                        out += [x for x in v if isinstance(x, A.Ast)]
        return out

    def walk(node):
        if isinstance(node, (A.And, A.Or)) and any(has_red(a) for a in node.args[1:]):
            return True
        return any(walk(c) for c in kids(node))
    return walk(fn.ast.body)


def run(tier: str) -> int:
    rep = core.Report('C08', tier)
    nprog, nvec = (16, 16) if tier == 'quick' else (200, 40)
    rng = random.Random(core.seed() * 211 + 5)
    stats = Counter()
    work = tempfile.mkdtemp(prefix='verif-c08-')
    try:
        from .. import gen_prog
        progs = []
        hf, hrej = gen_prog.load_programs(HAND, work, 'c08hand')
        for n, f in hf.items():
            progs.append((n, f, HAND[n]))
        per = max(1, nprog // len(PROFILES))
        for k, prof in enumerate(PROFILES):
            srcs, funcs, rej = progrun.generate_and_load(core.seed() * 19 + k, per, prof, work, f'c8_{k}_')
            stats['rejected_by_front_end'] += len(rej)
            for n, f in funcs.items():
                if 'for ' in srcs[n] or 'while ' in srcs[n] or 'any(' in srcs[n] or 'all(' in srcs[n]:
                    progs.append((n, f, srcs[n]))
        shapes = {n: iter_source_mutated(f) for (n, f, _) in progs}
        shorts = {n: fuse_in_short_circuit(f) for (n, f, _) in progs}
        agree = []
        pairs, timeouts = equiv.make_pairs(progs, configs(tier), rng, nvec, stats, vectors_fn=vectors, agree=agree)
        # the repository's own vector / matrix / metrics libraries: loops and comprehensions written by the maintainers
        lp, lt = equiv.library_pairs(configs(tier), rng, max(8, nvec // 2), stats, agree, pid0=len(pairs) + 10000,
                                     every=(6 if tier == 'quick' else 1), phase=core.seed())
        pairs += lp
        timeouts += lt
        mm, skips, gen, dis = equiv.run_equiv(pairs)
    finally:
        shutil.rmtree(work, ignore_errors=True)
    rep.add_tlc(gen, dis)
    def key(meta, clause):
        k = {}
        if 'elim_iter' in meta['config'] and shapes.get(meta['program']):
            k['shape'] = 'iter-source-mutated-in-body'
        if 'fuse' in meta['config'] and shorts.get(meta['program']) and clause in ('model-raises', 'impl-raises', 'code-raises', 'transformed-raises'):
            k['shape'] = 'fuse-hoists-from-short-circuit-operand'
        return k
    equiv.report(rep, pairs, timeouts, mm, skips, stats, extra_key=key,
                 precondition_error=lambda meta, err: 'STRICT' in meta['config'] and err == 'AssertionError', agree=agree)
    equiv.run_agree(rep, agree, extra_key=key,
                    precondition_error=lambda meta, err: 'STRICT' in meta['config'] and err == 'AssertionError')
    rep.cov['distinct_nontrivial'] = len({(m['program'], m['xsrc']) for (_, _, m) in pairs})
    rep.cov['rule'] = ('hand-written + generated loop programs x {unroll_for 1-3 PEEL/STRICT, unroll_while 1-2, split 2-3 and variable PEEL/STRICT (loops named by index, cursor or all), '
                       'elim_iter, fuse, compositions} x list lengths 0..7 x caller contexts; STRICT judged only on lengths divisible by the '
                       'factor; non-trivial = distinct transformed program')
    for (o, x, m) in pairs[:2]:
        rep.sample({'config': m['config'], 'src': m['src'], 'xsrc': m['xsrc']})
    return rep.finish()


def replay(path: str) -> int:
    import json
    print(json.dumps(json.loads(open(path).read()), indent=1)[:4000])
    return 0
