"""
C16 -- Encodings and ordinals are order-preserving bijections.

Design level: spec/MCEncoding.tla (layout value set = core format value set, injectivity).
Mode V: per format one "table" record -- every bit pattern through the real decode / encode /
to_ordinal / from_ordinal / next_up / next_down / normalize / representable_in, plus a probe
grid and largest/smallest -- judged by Encoding!TableVerdict; ordinal windows of the unsized
ordinal formats judged by Encoding!WindowVerdict.
"""
from __future__ import annotations

from fractions import Fraction

import fpy2 as fp
from fpy2.number import Float
from fpy2.number.context.efloat import EFloatContext
from fpy2.number.context.exponential import ExpContext
from fpy2.number.context.fixed import FixedContext
from fpy2.number.context.mp_fixed import MPFixedContext
from fpy2.number.context.mpb_fixed import MPBFixedContext
from fpy2.number.context.mpb_float import MPBFloatContext
from fpy2.number.context.mps_float import MPSFloatContext
from fpy2.number.context.sm_fixed import SMFixedContext

from .. import core, gen_num
from ..export import OutOfDomain, ctx_json, num_json


def _opt(fn):
    try:
        return [num_json(fn())]
    except OutOfDomain:
        raise
    except Exception:          # noqa: BLE001
        return []


def table(ctx) -> dict:
    fmt = ctx.format()
    nbits = fmt.total_bits()
    rows = []
    vals = []
    for b in range(1 << nbits):
        v = fmt.decode(b)
        row = {'b': b, 'val': num_json(v)}
        try:
            row['b2'] = int(fmt.encode(v))
        except Exception:      # noqa: BLE001
            row['b2'] = -1
        try:
            row['rep'] = bool(fmt.representable_in(v))
        except Exception:      # noqa: BLE001
            row['rep'] = False
        fin = not (v.isnan or v.isinf)
        row['fin'] = fin
        row['ord'] = 0
        row['back'] = row['val']
        row['norm'] = row['val']
        row['up'] = []
        row['down'] = []
        if fin:
            vals.append(v)
            try:
                row['ord'] = int(fmt.to_ordinal(v))
                row['back'] = num_json(fmt.from_ordinal(row['ord']))
            except Exception as e:      # noqa: BLE001
                row['ord'] = -99999
            try:
                row['norm'] = num_json(fmt.normalize(v))
            except Exception:  # noqa: BLE001
                row['norm'] = {'k': 'nan'}
            row['up'] = _opt(lambda: fmt.next_up(v))
            row['down'] = _opt(lambda: fmt.next_down(v))
            # the same value in another spelling (significand shifted by two digits): still the same pattern, the same normal form
            v2 = Float(s=v.s, c=v.c << 2, exp=v.exp - 2)
            try:
                row['b3'] = int(fmt.encode(v2))
            except Exception:  # noqa: BLE001
                row['b3'] = -1
            try:
                row['norm2'] = num_json(fmt.normalize(v2))
            except Exception:  # noqa: BLE001
                row['norm2'] = {'k': 'nan'}
        else:
            row['b3'] = row['b2']
            row['norm2'] = row['val']
        rows.append(row)
    # probes: a grid twice as fine as the format, past its largest value
    probes = []
    mags = sorted({abs(v.as_rational()) for v in vals})
    pts = set()
    for a, b in zip(mags, mags[1:]):
        pts.add((a + b) / 2)
        pts.add(a + (b - a) / 4)
    if mags:
        top = mags[-1]
        step = (mags[-1] - mags[-2]) if len(mags) > 1 else Fraction(1)
        pts.update({top + step, top + step / 2, top * 2 + 1, top * 2})
        pts.update(mags)
    for q in sorted(pts):
        for sgn in (1, -1):
            x = gen_num.F(sgn * q) if q != 0 else Float(s=sgn < 0, c=0, exp=0)
            try:
                probes.append({'x': num_json(x), 'rep': bool(fmt.representable_in(x))})
            except OutOfDomain:
                pass
    # a NaN that comes from rounding (not from decoding a pattern) encodes to a pattern that decodes to NaN
    nanrt = []
    try:
        nv = ctx.round(float('nan'))
        if nv.isnan:
            nanrt = [bool(fmt.decode(int(fmt.encode(nv))).isnan)]
    except Exception:      # noqa: BLE001   (the format has no NaN)
        nanrt = []
    return {'op': 'table', 'ctx': ctx_json(ctx), 'rows': rows, 'probes': probes, 'nanrt': nanrt,
            'largest': _opt(fmt.largest), 'smallest': _opt(fmt.smallest)}


def window(ctx, k: int = 24) -> dict:
    fmt = ctx.format()
    rows = []
    for o in range(-k, k + 1):
        try:
            v = fmt.from_ordinal(o)
            rows.append({'ord': o, 'val': num_json(v), 'ord2': int(fmt.to_ordinal(v))})
        except OutOfDomain:
            raise
        except Exception:      # noqa: BLE001   (past the bounds of a bounded format)
            continue
    return {'op': 'window', 'ctx': ctx_json(ctx), 'rows': rows}


def formats(tier: str):
    big = tier == 'thorough'
    mb = 6 if big else 5
    out = []
    for (es, nbits, inf, nk, eo) in gen_num.efloat_formats(mb, (-1, 0, 2)):
        if es > 4:
            continue        # 2^16 and beyond: the relational checks cross-multiply and leave TLC's integers
        out.append(('table', EFloatContext(es, nbits, inf, nk, eo)))
    for es, nbits in ((2, 4), (3, 5), (2, 6), (3, 7), (4, 8), (3, 8)):
        if nbits <= (8 if big else 6):
            out.append(('table', fp.IEEEContext(es, nbits)))
    for signed in (True, False):
        for scale in (-2, 0, 1):
            for nbits in range(1, (8 if big else 6) + 1):
                c = gen_num.try_ctx(FixedContext, signed, scale, nbits)
                if c is not None:
                    out.append(('table', c))
    for scale in (-2, 0, 1):
        for nbits in range(2, (8 if big else 6) + 1):
            out.append(('table', SMFixedContext(scale, nbits)))
    for nbits in range(1, 5):
        for eo in (-1, 0, 2):
            out.append(('table', ExpContext(nbits, eo)))
    for p in (1, 2, 3, 4):
        for emin in (-2, 0, 1):
            out.append(('window', MPSFloatContext(p, emin)))
            out.append(('window', MPBFloatContext(p, emin, fp.RealFloat(c=(1 << p) - 1, exp=emin + 2 - p + 1))))
    for nmin in (-3, -1, 0, 2):
        out.append(('window', MPFixedContext(nmin)))
        out.append(('window', MPBFixedContext(nmin, fp.RealFloat(c=9, exp=nmin + 1))))
    return out


def _rec(job):
    kind, ctx = job
    try:
        return table(ctx) if kind == 'table' else window(ctx)
    except OutOfDomain:
        return None


def run(tier: str) -> int:
    rep = core.Report('C16', tier)
    mc = core.run_tlc('MCEncoding', 'MCEncoding', workers=core.NCPU, timeout=3000)
    if not mc.ok:
        print('MACHINERY: MCEncoding failed\n' + mc.error)
        return 2
    rep.add_tlc(mc.generated, mc.distinct)
    rep.cov['design_level'] = {'module': 'MCEncoding', 'states': mc.distinct}
    jobs = formats(tier)
    recs = [r for r in core.pool_map(_rec, jobs, chunksize=4)]
    ood = sum(1 for r in recs if r is None)
    recs = [r for r in recs if r is not None]
    for i, r in enumerate(recs):
        r['tid'] = i
    out = core.validate_trace('EncodingTrace', recs, nshards=core.NCPU)
    rep.add_tlc(out.generated, out.distinct)
    rep.cov['traces_validated_against_impl'] = len(recs)
    rep.cov['evaluations'] = sum(len(r['rows']) + len(r.get('probes', [])) for r in recs)
    rep.cov['distinct_nontrivial'] = sum(1 for r in recs if len(r['rows']) >= 4)
    rep.cov['rule'] = ('every valid EFloat/IEEE/fixed/sign-magnitude/exponential format up to the tier bit width, every bit '
                       'pattern; non-trivial = format with at least 4 codes')
    rep.cov['out_of_domain'] = ood
    rep.cov['exhaustive'] = True
    small = [r for r in recs if len(r['rows']) <= 8]
    for r in small[:: max(1, len(small) // 3)][:3]:
        rep.sample({'ctx': r['ctx'], 'op': r['op'], 'rows': r['rows'][:4]})
    by = {r['tid']: r for r in recs}
    for mm in out.mismatches:
        r = by[mm[0]]
        c = r['ctx']
        key = {'fam': c['fam'], 'clause': mm[1], 'nbits': c.get('nbits'), 'nk': c.get('nk'), 'inf': c.get('inf')}
        rep.mismatch(key, r)
    return rep.finish()


def replay(path: str) -> int:
    return core.replay_saved('C16', 'EncodingTrace', path, rerun=globals().get('_rerun'))
