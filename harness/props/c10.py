"""
C10 -- Rounding-lowering rewrites leave the rounding function unchanged.

For every statically known source context C of the enumeration, the program
    with C: y = fp.round(x); return y
is built from text, every rewrite and every prefix of the documented chain
    monomorphize -> unfold_special -> unfold_overflow(early_check F/T) -> unfold_neg_zero ->
    float_to_fixed -> rescale_fixed -> simplify
(and elim_round / insert_round) is applied by the real strategy, the real lowered Function is run on every
breakpoint operand of C, and TLC judges each result against Rounding!Expect(C, x) -- the oracle of C01.
A refusal is recorded, never judged.
"""
from __future__ import annotations

import random
import shutil
import tempfile
from collections import Counter
from fractions import Fraction

import fpy2 as fp
from fpy2.number import Float

from .. import core, gen_num, gen_prog
from ..export import OutOfDomain, RealContext, ctx_json, num_json

SRC = '''@fp.fpy
def lower_me(x: fp.Real):
    with CTX:
        y = fp.round(x)
    return y
'''


def chain():
    S = fp.strategies
    return [
        ('monomorphize', lambda f: S.monomorphize(f)),
        ('unfold_special', lambda f: S.unfold_special(f)),
        ('unfold_overflow', lambda f: S.unfold_overflow(f)),
        ('unfold_neg_zero', lambda f: S.unfold_neg_zero(f)),
        ('float_to_fixed', lambda f: S.float_to_fixed(f)),
        ('rescale_fixed', lambda f: S.rescale_fixed(f)),
        ('simplify', lambda f: S.simplify(f)),
    ]


def variants(f, ctx):
    """(label, Function) for every prefix of the chain (both early_check settings) and single rewrites."""
    S = fp.strategies
    out, refusals = [], Counter()

    def step(name, fn, g):
        try:
            return fn(g)
        except Exception as e:      # noqa: BLE001  -- a refusal
            refusals[f'{name}:{type(e).__name__}'] += 1
            return None

    for early in (False, True):
        g = f
        label = ''
        for name, fn in chain():
            if name == 'unfold_overflow':
                fn = (lambda early: lambda h: S.unfold_overflow(h, early_check=early))(early)
                name = f'unfold_overflow[{"early" if early else "late"}]'
            h = step(name, fn, g)
            if h is None:
                continue
            g = h
            label = (label + '>' + name) if label else name
            out.append((label, g))
    for name, fn in chain()[1:6]:
        h = step('single:' + name, fn, f)
        if h is not None:
            out.append(('single:' + name, h))
    h = step('elim_round', lambda g: S.elim_round(g), f)
    if h is not None:
        out.append(('elim_round', h))
    h = step('insert_round', lambda g: S.insert_round(S.elim_round(g), ctx), f)
    if h is not None:
        out.append(('elim_round>insert_round', h))
    return out, refusals


def record(job):
    idx, ctx, dense = job
    work = tempfile.mkdtemp(prefix='verif-c10-')
    recs, stats = [], Counter()
    try:
        try:
            cj = ctx_json(ctx)
        except OutOfDomain:
            return [], Counter({'ctx-out-of-domain': 1})
        import types
        mod = gen_prog.load_module(gen_prog.HEADER + 'CTX = None\n' + SRC, work, f'c10_{idx}')
        # bind the context object as the module global the function captured
        try:
            mod2 = types.ModuleType(f'c10b_{idx}')
        except Exception:           # noqa: BLE001
            pass
        src = gen_prog.HEADER + SRC
        path = f'{work}/c10c_{idx}.py'
        open(path, 'w').write(src)
        import importlib.util, sys
        spec = importlib.util.spec_from_file_location(f'c10c_{idx}', path)
        m = importlib.util.module_from_spec(spec)
        m.CTX = ctx
        sys.modules[f'c10c_{idx}'] = m
        m.__dict__['CTX'] = ctx
        spec.loader.exec_module(m)
        f = m.lower_me
        vs, refusals = variants(f, ctx)
        stats.update(refusals)
        seen = set()
        pts = gen_num.operand_points(ctx, dense)
        xs = []
        for q in pts:
            for sgn in (1, -1):
                if q == 0 and sgn == -1:
                    continue
                xs.append(gen_num.F(sgn * q))
        xs += [Float(s=True, c=0, exp=0), Float(isinf=True), Float(isinf=True, s=True), Float(isnan=True)]
        for (label, g) in vs:
            try:
                text = g.format()
            except Exception:       # noqa: BLE001
                text = label
            if text in seen:
                stats['duplicate-output'] += 1
                continue
            seen.add(text)
            for x in xs:
                try:
                    xj = num_json(x)
                except OutOfDomain:
                    continue
                try:
                    y = g(x)
                    out = {'val': num_json(y)}
                except OutOfDomain:
                    continue
                except Exception as e:      # noqa: BLE001
                    out = {'err': type(e).__name__}
                recs.append({'ctx': cj, 'x': xj, 'vo': True, 'hasn': False, 'n': 0, 'out': out, 'label': label})
    finally:
        shutil.rmtree(work, ignore_errors=True)
    return recs, stats


def ctx_class(c):
    def kind(v):
        if v is None:
            return 'none'
        v = Float(x=v) if not isinstance(v, Float) else v
        return 'nan' if v.isnan else 'inf' if v.isinf else 'finite'
    mv = getattr(c, 'pos_maxval', None)
    iv = getattr(c, 'inf_value', None)
    at_bound = False
    try:
        at_bound = iv is not None and mv is not None and not Float(x=iv).isinf and abs(Float(x=iv)) == Float(x=mv)
    except Exception:       # noqa: BLE001
        pass
    return (type(c).__name__, str(getattr(c, 'overflow', '')), bool(getattr(c, 'enable_nan', False)), bool(getattr(c, 'enable_inf', False)),
            bool(getattr(c, 'enable_neg_zero', True)), kind(getattr(c, 'nan_value', None)), kind(iv), at_bound)


# ---------------------------------------------------------------------------------------------------------------
# elim_round on arithmetic: a rounding proved to be an identity is removed; the result must still be the
# correctly rounded operation (Arith!OpVerdict) on every operand tuple of the pinned argument format

ARITH_SRC = {
    'neg': ('def er_neg(x: fp.Real):\n    return -x', 1),
    'fabs': ('def er_fabs(x: fp.Real):\n    return abs(x)', 1),
    'add': ('def er_add(x: fp.Real, y: fp.Real):\n    return x + y', 2),
    'sub': ('def er_sub(x: fp.Real, y: fp.Real):\n    return x - y', 2),
    'mul': ('def er_mul(x: fp.Real, y: fp.Real):\n    return x * y', 2),
    'fma': ('def er_fma(x: fp.Real, y: fp.Real):\n    return fp.fma(x, y, x)', 2),
}


def arith_scopes(tier):
    RM = fp.RM
    out = [fp.FixedContext(True, 0, 8), fp.FixedContext(True, -1, 8), fp.FixedContext(False, 0, 6), fp.IEEEContext(4, 9), fp.IEEEContext(3, 7, RM.RTZ),
           fp.MPFixedContext(-2), fp.MPFloatContext(6), fp.SMFixedContext(0, 8), fp.IEEEContext(4, 9, RM.RTN), fp.MPFixedContext(-2, RM.RTN)]
    return out if tier == 'thorough' else out[::2] + [out[-1]]


def arith_argctx():
    return [fp.FixedContext(True, 0, 4), fp.FixedContext(False, 0, 3), fp.FixedContext(True, -1, 4), fp.IEEEContext(2, 4), fp.SMFixedContext(0, 3)]


def record_arith(job):
    from fpy2.types import RealType
    from fpy2.number import Float, RealFloat
    from fractions import Fraction
    import itertools
    tier, si = job
    scope = arith_scopes(tier)[si]
    S = fp.strategies
    work = tempfile.mkdtemp(prefix='verif-c10a-')
    recs, stats = [], Counter()
    try:
        try:
            cj = ctx_json(scope)
        except OutOfDomain:
            return [], stats
        for op, (src, arity) in ARITH_SRC.items():
            mod = gen_prog.load_module(gen_prog.HEADER + '@fp.fpy\n' + src + '\n', work, f'c10a_{si}_{op}')
            f = getattr(mod, 'er_' + op)
            for actx in arith_argctx():
                fmt = actx.format()
                vals = []
                for k in range(-64, 65):
                    q = Fraction(k, 4)
                    v = Float(x=RealFloat(s=q < 0, c=abs(q.numerator), exp=-(q.denominator.bit_length() - 1)))
                    if fmt.representable_in(v):
                        vals.append(v)
                for v in (Float(s=True, c=0, exp=0), Float(isinf=True), Float(isinf=True, s=True), Float(isnan=True)):
                    if fmt.representable_in(v):
                        vals.append(v)
                try:
                    pinned = S.monomorphize(f, scope, [RealType(actx)] * arity)
                    g = S.elim_round(pinned)
                except Exception as e:      # noqa: BLE001  -- a refusal
                    stats[f'elim_round-refused:{type(e).__name__}'] += 1
                    continue
                changed = g.format() != pinned.format()
                stats['elim_round-changed' if changed else 'elim_round-left-alone'] += 1
                if not changed:
                    continue
                try:
                    g2 = S.simplify(g)
                except Exception:       # noqa: BLE001
                    g2 = g
                tuples = list(itertools.product(vals, repeat=arity))
                if len(tuples) > 400:
                    tuples = random.Random(si).sample(tuples, 400)
                for args in tuples:
                    opargs = list(args) + ([args[0]] if op == 'fma' else [])
                    try:
                        aj = [num_json(a) for a in opargs]
                    except OutOfDomain:
                        continue
                    for label, h in (('elim_round', g), ('elim_round>simplify', g2)):
                        try:
                            out = {'val': num_json(h(*args))}
                        except OutOfDomain:
                            continue
                        except Exception as e:      # noqa: BLE001
                            out = {'err': type(e).__name__}
                        recs.append({'op': op, 'ctx': cj, 'args': aj, 'g': 4, 'out': out, 'label': label, 'argfmt': str(actx), 'xsrc': h.format()[:600]})
    finally:
        shutil.rmtree(work, ignore_errors=True)
    return recs, stats


def run(tier: str) -> int:
    rep = core.Report('C10', tier)
    rng = random.Random(core.seed())
    ctxs = [c for c in gen_num.contexts('quick', rng) if not isinstance(c, RealContext)]
    # stratified: every class of context (family, overflow rule, NaN / infinity options and kind of substitute, signed zero)
    # is represented in every run; within a class a seeded 1/40 (quick) or 1/4 (thorough) sample
    groups: dict = {}
    for c in ctxs:
        groups.setdefault(ctx_class(c), []).append(c)
    step = 40 if tier == 'quick' else 4
    ctxs = []
    for k in sorted(groups, key=repr):
        g = groups[k]
        ctxs += rng.sample(g, min(len(g), max(3 if tier == 'quick' else 8, -(-len(g) // step))))
    jobs = [(i, c, 4) for i, c in enumerate(ctxs)]
    res = core.pool_map(record, jobs, chunksize=2)
    recs, stats = [], Counter()
    for r, st in res:
        recs += r
        stats.update(st)
    for i, r in enumerate(recs):
        r['tid'] = i
    out = core.validate_trace('RoundingTrace', recs)
    rep.add_tlc(out.generated, out.distinct)
    by = {r['tid']: r for r in recs}
    for mm in out.mismatches:
        r = by[mm[0]]
        rep.mismatch({'clause': mm[1], 'fam': r['ctx']['fam'], 'chain': r['label'].split('>')[-1], 'ov': r['ctx'].get('ov', '')}, r)
    # ---- elim_round on arithmetic with pinned argument formats
    ares = core.pool_map(record_arith, [(tier, i) for i in range(len(arith_scopes(tier)))], chunksize=1)
    arecs = []
    for r, st in ares:
        arecs += r
        stats.update(st)
    for i, r in enumerate(arecs):
        r['tid'] = i
    if arecs:
        aout = core.validate_trace('ArithTrace', [{k: v for k, v in r.items() if k not in ('label', 'argfmt', 'xsrc')} for r in arecs])
        rep.add_tlc(aout.generated, aout.distinct)
        aby = {r['tid']: r for r in arecs}
        for mm in aout.mismatches:
            r = aby[mm[0]]
            rep.mismatch({'clause': 'elim_round-' + mm[1], 'op': r['op']}, r)
    rep.cov['elim_round_arithmetic_evaluations'] = len(arecs)
    rep.cov.update({'contexts': len(ctxs), 'evaluations': len(recs) + len(arecs), 'traces_validated_against_impl': len(recs) + len(arecs),
                    'distinct_nontrivial': len({(repr(r['ctx']), r['label']) for r in recs}),
                    'refusals_and_duplicates': dict(stats),
                    'rule': 'contexts of every family (stratified by class of context: per class a seeded 1/40 (quick) or 1/4 (thorough) sample, at least 3 / 8, of the C01 enumeration) x every distinct '
                            'output of every chain prefix / single rewrite x every quarter-gap operand and special; non-trivial = (context, rewrite) pair'})
    for r in recs[:: max(1, len(recs) // 4)][:4]:
        rep.sample(r)
    return rep.finish()


def replay(path: str) -> int:
    return core.replay_saved('C10', 'RoundingTrace', path)
