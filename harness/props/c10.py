"""
C10 -- Rounding-lowering rewrites leave the rounding function unchanged.

For every statically known source context C of the enumeration, the program
    with C: y = fp.round(x); return y
is built from text, every rewrite and every prefix of the documented chain
    monomorphize -> unfold_special -> unfold_overflow(early_check F/T) -> unfold_neg_zero ->
    float_to_fixed -> rescale_fixed -> simplify
(and elim_round / insert_round) is applied by the real strategy, the real lowered Function is run on every
breakpoint operand of C, and TLC judges each result against Rounding!Expect(C, x) -- the oracle of C01.
A refusal is recorded, never judged.
"""
from __future__ import annotations

import random
import shutil
import tempfile
from collections import Counter
from fractions import Fraction

import fpy2 as fp
from fpy2.number import Float

from .. import core, gen_num, gen_prog
from ..export import OutOfDomain, RealContext, ctx_json, num_json

SRC = '''@fp.fpy
def lower_me(x: fp.Real):
    with CTX:
        y = fp.round(x)
    return y
'''


def chain():
    S = fp.strategies
    return [
        ('monomorphize', lambda f: S.monomorphize(f)),
        ('unfold_special', lambda f: S.unfold_special(f)),
        ('unfold_overflow', lambda f: S.unfold_overflow(f)),
        ('unfold_neg_zero', lambda f: S.unfold_neg_zero(f)),
        ('float_to_fixed', lambda f: S.float_to_fixed(f)),
        ('rescale_fixed', lambda f: S.rescale_fixed(f)),
        ('simplify', lambda f: S.simplify(f)),
    ]


def variants(f, ctx):
    """(label, Function) for every prefix of the chain (both early_check settings) and single rewrites."""
    S = fp.strategies
    out, refusals = [], Counter()

    def step(name, fn, g):
        try:
            return fn(g)
        except Exception as e:      # noqa: BLE001  -- a refusal
            refusals[f'{name}:{type(e).__name__}'] += 1
            return None

    for early in (False, True):
        g = f
        label = ''
        for name, fn in chain():
            if name == 'unfold_overflow':
                fn = (lambda early: lambda h: S.unfold_overflow(h, early_check=early))(early)
                name = f'unfold_overflow[{"early" if early else "late"}]'
            h = step(name, fn, g)
            if h is None:
                continue
            g = h
            label = (label + '>' + name) if label else name
            out.append((label, g))
    for name, fn in chain()[1:6]:
        h = step('single:' + name, fn, f)
        if h is not None:
            out.append(('single:' + name, h))
    h = step('elim_round', lambda g: S.elim_round(g), f)
    if h is not None:
        out.append(('elim_round', h))
    h = step('insert_round', lambda g: S.insert_round(S.elim_round(g), ctx), f)
    if h is not None:
        out.append(('elim_round>insert_round', h))
    return out, refusals


def record(job):
    idx, ctx, dense = job
    work = tempfile.mkdtemp(prefix='verif-c10-')
    recs, stats = [], Counter()
    try:
        try:
            cj = ctx_json(ctx)
        except OutOfDomain:
            return [], Counter({'ctx-out-of-domain': 1})
        import types
        mod = gen_prog.load_module(gen_prog.HEADER + 'CTX = None\n' + SRC, work, f'c10_{idx}')
        # bind the context object as the module global the function captured
        try:
            mod2 = types.ModuleType(f'c10b_{idx}')
        except Exception:           # noqa: BLE001
            pass
        src = gen_prog.HEADER + SRC
        path = f'{work}/c10c_{idx}.py'
        open(path, 'w').write(src)
        import importlib.util, sys
        spec = importlib.util.spec_from_file_location(f'c10c_{idx}', path)
        m = importlib.util.module_from_spec(spec)
        m.CTX = ctx
        sys.modules[f'c10c_{idx}'] = m
        m.__dict__['CTX'] = ctx
        spec.loader.exec_module(m)
        f = m.lower_me
        vs, refusals = variants(f, ctx)
        stats.update(refusals)
        seen = set()
        pts = gen_num.operand_points(ctx, dense)
        xs = []
        for q in pts:
            for sgn in (1, -1):
                if q == 0 and sgn == -1:
                    continue
                xs.append(gen_num.F(sgn * q))
        xs += [Float(s=True, c=0, exp=0), Float(isinf=True), Float(isinf=True, s=True), Float(isnan=True)]
        for (label, g) in vs:
            try:
                text = g.format()
            except Exception:       # noqa: BLE001
                text = label
            if text in seen:
                stats['duplicate-output'] += 1
                continue
            seen.add(text)
            for x in xs:
                try:
                    xj = num_json(x)
                except OutOfDomain:
                    continue
                try:
                    y = g(x)
                    out = {'val': num_json(y)}
                except OutOfDomain:
                    continue
                except Exception as e:      # noqa: BLE001
                    out = {'err': type(e).__name__}
                recs.append({'ctx': cj, 'x': xj, 'vo': True, 'hasn': False, 'n': 0, 'out': out, 'label': label})
    finally:
        shutil.rmtree(work, ignore_errors=True)
    return recs, stats


def ctx_class(c):
    def kind(v):
        if v is None:
            return 'none'
        v = Float(x=v) if not isinstance(v, Float) else v
        return 'nan' if v.isnan else 'inf' if v.isinf else 'finite'
    mv = getattr(c, 'pos_maxval', None)
    iv = getattr(c, 'inf_value', None)
    at_bound = False
    try:
        at_bound = iv is not None and mv is not None and not Float(x=iv).isinf and abs(Float(x=iv)) == Float(x=mv)
    except Exception:       # noqa: BLE001
        pass
    return (type(c).__name__, str(getattr(c, 'overflow', '')), bool(getattr(c, 'enable_nan', False)), bool(getattr(c, 'enable_inf', False)),
            bool(getattr(c, 'enable_neg_zero', True)), kind(getattr(c, 'nan_value', None)), kind(iv), at_bound)


def run(tier: str) -> int:
    rep = core.Report('C10', tier)
    rng = random.Random(core.seed())
    ctxs = [c for c in gen_num.contexts('quick', rng) if not isinstance(c, RealContext)]
    # stratified: every class of context (family, overflow rule, NaN / infinity options and kind of substitute, signed zero)
    # is represented in every run; within a class a seeded 1/40 (quick) or 1/4 (thorough) sample
    groups: dict = {}
    for c in ctxs:
        groups.setdefault(ctx_class(c), []).append(c)
    step = 40 if tier == 'quick' else 4
    ctxs = []
    for k in sorted(groups, key=repr):
        g = groups[k]
        ctxs += rng.sample(g, min(len(g), max(3 if tier == 'quick' else 8, -(-len(g) // step))))
    jobs = [(i, c, 4) for i, c in enumerate(ctxs)]
    res = core.pool_map(record, jobs, chunksize=2)
    recs, stats = [], Counter()
    for r, st in res:
        recs += r
        stats.update(st)
    for i, r in enumerate(recs):
        r['tid'] = i
    out = core.validate_trace('RoundingTrace', recs)
    rep.add_tlc(out.generated, out.distinct)
    by = {r['tid']: r for r in recs}
    for mm in out.mismatches:
        r = by[mm[0]]
        rep.mismatch({'clause': mm[1], 'fam': r['ctx']['fam'], 'chain': r['label'].split('>')[-1], 'ov': r['ctx'].get('ov', '')}, r)
    rep.cov.update({'contexts': len(ctxs), 'evaluations': len(recs), 'traces_validated_against_impl': len(recs),
                    'distinct_nontrivial': len({(repr(r['ctx']), r['label']) for r in recs}),
                    'refusals_and_duplicates': dict(stats),
                    'rule': 'contexts of every family (stratified by class of context: per class a seeded 1/40 (quick) or 1/4 (thorough) sample, at least 3 / 8, of the C01 enumeration) x every distinct '
                            'output of every chain prefix / single rewrite x every quarter-gap operand and special; non-trivial = (context, rewrite) pair'})
    for r in recs[:: max(1, len(recs) // 4)][:4]:
        rep.sample(r)
    return rep.finish()


def replay(path: str) -> int:
    return core.replay_saved('C10', 'RoundingTrace', path)
