"""
C09 -- Inlining, specialisation and hoisting preserve results.

inline (all sites / one site / one level), monomorphize (pinned caller context: the original is then
evaluated with that context), close (captured numbers) and lift_context on generated caller/callee
programs: callees with and without their own context, called inside nested `with` blocks and loops,
with list arguments they mutate, with clashing local names, with calls in expression position after
list reads.  TLC runs original and transformed ASTs on spec/Equiv.tla.
"""
from __future__ import annotations

import random
import shutil
import tempfile
from collections import Counter

import fpy2 as fp

from .. import core, equiv, progrun

PROFILES = [
    {'calls': 0.35, 'callexpr': 0.25, 'with': 0.3, 'loops': 0.2, 'lists': 0.2, 'clash': True, 'globals': True, 'stmts': (3, 7)},
    {'calls': 0.3, 'callexpr': 0.15, 'with': 0.35, 'loops': 0.25, 'lists': 0.15, 'clash': True, 'stmts': (3, 7)},
]

HAND = {
    'hand_order': '''@fp.fpy
def hand_order_h(zs: list[fp.Real], a: fp.Real) -> fp.Real:
    zs[0] = a
    return a + 1

@fp.fpy
def hand_order(x: fp.Real, y: fp.Real, xs: list[fp.Real], k: fp.Real):
    ys = [x, y]
    a = ys[0] + hand_order_h(ys, 7)
    return (a, ys)''',
    'hand_ctx': '''@fp.fpy(ctx=fp.MPFloatContext(2))
def hand_ctx_own(a: fp.Real) -> fp.Real:
    return a * 1.25 + 0.1

@fp.fpy
def hand_ctx_inherit(a: fp.Real) -> fp.Real:
    v1 = a * 1.25 + 0.1
    return v1

@fp.fpy
def hand_ctx(x: fp.Real, y: fp.Real, xs: list[fp.Real], k: fp.Real):
    v1 = x
    with fp.MPFixedContext(-2, fp.RM.RTZ):
        p = hand_ctx_own(x)
        with fp.MPFloatContext(k):
            q = hand_ctx_inherit(y)
        r = hand_ctx_inherit(y)
    for e in xs:
        with fp.IEEEContext(3, 6):
            v1 = v1 + hand_ctx_inherit(e)
    return (p, q, r, v1)''',
    'hand_nested_call': '''@fp.fpy
def hand_nested_call_bump(zs: list[fp.Real], a: fp.Real) -> fp.Real:
    zs[0] = zs[0] + a
    return zs[0]

@fp.fpy
def hand_nested_call_comb(a: fp.Real, b: fp.Real) -> fp.Real:
    return a * 4 + b

@fp.fpy
def hand_nested_call(x: fp.Real, y: fp.Real, xs: list[fp.Real], k: fp.Real):
    ys = [x, y]
    r = hand_nested_call_comb(ys[0], hand_nested_call_bump(ys, 3))
    for e in xs:
        r = r + hand_nested_call_comb(ys[0], hand_nested_call_bump(ys, e))
    return (r, ys)''',
    'hand_own_ctx': '''@fp.fpy(ctx=fp.IEEEContext(3, 6, fp.RM.RNE))
def hand_own_ctx(x: fp.Real, y: fp.Real, xs: list[fp.Real], k: fp.Real):
    a = x / 3 + y * 1.1
    for e in xs:
        a = a + e / 3
    return a''',
    'hand_lift_dep': '''@fp.fpy
def hand_lift_dep(x: fp.Real, y: fp.Real, xs: list[fp.Real], k: fp.Real):
    p = 2
    for e in xs:
        with fp.MPFloatContext(p + 1):
            x = x + e * 1.25
        with fp.MPFixedContext(-k):
            y = y + e / 3
    return (x, y)''',
    'hand_same_callee_nested': '''@fp.fpy
def hand_scn_mix(a: fp.Real, b: fp.Real) -> fp.Real:
    t = a * 10
    return t + b

@fp.fpy
def hand_scn_put(zs: list[fp.Real], a: fp.Real, b: fp.Real) -> fp.Real:
    zs[0] = a
    return zs[0] * 10 + b

@fp.fpy
def hand_same_callee_nested(x: fp.Real, y: fp.Real, xs: list[fp.Real], k: fp.Real):
    r = hand_scn_mix(x, hand_scn_mix(y, k))
    ys = [x, y]
    zs = [y, x]
    s = hand_scn_put(ys, x, hand_scn_put(zs, y, k))
    acc = 0
    for e in xs:
        acc = hand_scn_mix(acc, hand_scn_mix(e, acc))
    return (r, s, ys, zs, acc)''',
    'hand_with_header_call': '''@fp.fpy(ctx=fp.INTEGER)
def hand_whc_pick(p: fp.Real) -> fp.Real:
    return p / 2 + 3

@fp.fpy(ctx=fp.MPFixedContext(0, fp.RM.RTP))
def hand_whc_pick2(p: fp.Real) -> fp.Real:
    return p / 4 + 2

@fp.fpy
def hand_with_header_call(x: fp.Real, y: fp.Real, xs: list[fp.Real], k: fp.Real):
    with fp.MPFloatContext(hand_whc_pick(k + 4)):
        a = x / 3 + y
    with fp.MPFloatContext(hand_whc_pick2(k + 5), fp.RM.RTZ):
        b = x / 7 - y
    return (a, b)''',
    'hand_free_var_clash': '''@fp.fpy
def hand_fvc_scale(a: fp.Real) -> fp.Real:
    return a * G1 + G2

@fp.fpy
def hand_free_var_clash(x: fp.Real, y: fp.Real, xs: list[fp.Real], k: fp.Real):
    G1 = x + 10
    t = hand_fvc_scale(y)
    G2 = t
    return (hand_fvc_scale(G1), t, G2)''',
    'hand_cond_call': '''@fp.fpy
def hand_cc_bump(zs: list[fp.Real], a: fp.Real) -> fp.Real:
    zs[0] = zs[0] + a
    return zs[0]

@fp.fpy
def hand_cond_call(x: fp.Real, y: fp.Real, xs: list[fp.Real], k: fp.Real):
    ys = [x, y]
    a = hand_cc_bump(ys, 1) if x > 1 else y
    b = y if x > 1 else hand_cc_bump(ys, 5)
    c = [hand_cc_bump(ys, e) for e in xs]
    d = x > 1 and hand_cc_bump(ys, 7) > 0
    return (a, b, c, d, ys)''',
    'hand_close_negzero': '''@fp.fpy
def hand_close_negzero(x: fp.Real, y: fp.Real, xs: list[fp.Real], k: fp.Real):
    a = 1 / NZ
    b = NZ * x
    return (a, b, NZ)''',
    'hand_lift_arith': '''@fp.fpy
def hand_lift_arith(x: fp.Real, y: fp.Real, xs: list[fp.Real], k: fp.Real):
    acc = x
    for e in xs:
        with fp.MPFloatContext(5 + 6):
            acc = acc + e / 3
        with fp.MPFixedContext(-(3 + 4)):
            acc = acc * 1.1
    return acc''',
    'hand_lift_arith2': '''@fp.fpy
def hand_lift_arith2(x: fp.Real, y: fp.Real, xs: list[fp.Real], k: fp.Real):
    with fp.MPFloatContext(5 + 6):
        a = x / 3 + y / 7
    with fp.MPFloatContext(3 * 3):
        b = a / 3 + 1.1
    return a, b''',
    'hand_lift_rebound_param': '''@fp.fpy
def hand_lift_rebound_param(x: fp.Real, y: fp.Real, xs: list[fp.Real], k: fp.Real):
    k = 9
    with fp.MPFloatContext(k):
        a = x / 3 + y / 7
    acc = a
    for e in xs:
        with fp.MPFloatContext(k):
            acc = acc + e / 3
    return (a, acc)''',
    'hand_close_equal_values': '''@fp.fpy
def hand_close_equal_values(x: fp.Real, y: fp.Real, xs: list[fp.Real], k: fp.Real):
    a = 1 / PZ
    b = 1 / NZ
    c = x if YES else y
    d = ONE + x
    return (a, b, c, d)''',
    'hand_callee_globals': '''@fp.fpy
def hand_cg_one(p: fp.Real) -> fp.Real:
    return p + t

@fp.fpy
def hand_cg_two(p: fp.Real) -> fp.Real:
    return p + K

@fp.fpy
def hand_cg_three(p: fp.Real) -> fp.Real:
    K = p * 2
    return K + 1

@fp.fpy
def hand_callee_globals(x: fp.Real, y: fp.Real, xs: list[fp.Real], k: fp.Real):
    a = hand_cg_one(x) * 2
    b = hand_cg_two(x)
    c = hand_cg_three(y)
    return (a, b, c, a + b + hand_cg_two(y))''',
    'hand_capture': '''@fp.fpy
def hand_capture(x: fp.Real, y: fp.Real, xs: list[fp.Real], k: fp.Real):
    with fp.MPFloatContext(3):
        a = G1 * x + G2
    return a / G2''',
}


def list_read_before_mutating_call(fn, call_parents: bool = False) -> bool:
    """Is there an expression whose earlier operand reads a list (xs[i], sum(xs), len(xs) ...) that a later operand
    passes to an FPy callee which writes to that parameter?  (The shape of known finding F13.)"""
    from fpy2.ast import fpyast as A
    from fpy2.function import Function

    def slots(node):
        out = []
        for cls in type(node).__mro__:
            for f in getattr(cls, '__slots__', ()):
                if f not in out and f not in ('loc', 'fn', 'func', 'meta'):
                    out.append(f)
        return out

    def kids(node):
        for f in slots(node):
            v = getattr(node, f, None)
            if isinstance(v, A.Ast):
                yield v
            elif isinstance(v, (tuple, list)):
                for x in v:
                    if isinstance(x, A.Ast):
                        yield x
                    elif isinstance(x, tuple):
                        for y in x:
                            if isinstance(y, A.Ast):
                                yield y

    def written_params(g: Function):
        names = [str(a.name) for a in g.ast.args]
        w = set()

        def walk(n):
            if isinstance(n, A.IndexedAssign) and str(n.var) in names:
                w.add(names.index(str(n.var)))
            for k in kids(n):
                walk(k)
        walk(g.ast.body)
        return w

    def mutated_lists(e):
        out = set()
        if isinstance(e, A.Call) and isinstance(e.fn, Function):
            for i in written_params(e.fn):
                if i < len(e.args) and isinstance(e.args[i], A.Var):
                    out.add(str(e.args[i].name))
        for k in kids(e):
            out |= mutated_lists(k)
        return out

    def reads(e):
        out = set()
        if not isinstance(e, A.Var):
            def vs(n):
                if isinstance(n, A.Var):
                    out.add(str(n.name))
                for k in kids(n):
                    vs(k)
            vs(e)
        return out

    def walk(n):
        is_call = isinstance(n, A.Call) and isinstance(n.fn, Function)
        if isinstance(n, A.Expr) and (is_call if call_parents else not is_call):
            ops = list(kids(n))
            for j in range(1, len(ops)):
                m = mutated_lists(ops[j])
                if m and any(reads(ops[i]) & m for i in range(j)):
                    return True
        return any(walk(k) for k in kids(n))
    return walk(fn.ast.body)


def vectors_fixed_ctx(ctx):
    def fn(rng, n):
        return [(args, ctx) for (args, _) in progrun.input_vectors(rng, n)]
    return fn


def configs_general():
    S = fp.strategies
    return [
        ('inline', lambda f: S.inline(f)),
        ('inline[where=0]', lambda f: S.inline(f, 0)),
        ('inline[where=1]', lambda f: S.inline(f, 1)),
        ('inline[one-level]', lambda f: S.inline(f, recursive=False)),
        ('close', lambda f: S.close(f)),
        ('lift_context', lambda f: S.lift_context(f)),
        ('inline;lift_context', lambda f: S.lift_context(S.inline(f))),
        ('inline;simplify', lambda f: S.simplify(S.inline(f))),
    ]


def run(tier: str) -> int:
    rep = core.Report('C09', tier)
    nprog, nvec = (24, 10) if tier == 'quick' else (300, 20)
    rng = random.Random(core.seed() * 307 + 3)
    stats = Counter()
    work = tempfile.mkdtemp(prefix='verif-c09-')
    try:
        from .. import gen_prog
        progs = []
        hf, hrej = gen_prog.load_programs(HAND, work, 'c09hand')
        for n, f in hf.items():
            progs.append((n, f, HAND[n]))
        per = max(1, nprog // len(PROFILES))
        for k, prof in enumerate(PROFILES):
            srcs, funcs, rej = progrun.generate_and_load(core.seed() * 23 + k, per, prof, work, f'c9_{k}_')
            stats['rejected_by_front_end'] += len(rej)
            for n, f in funcs.items():
                progs.append((n, f, srcs[n]))
        shapes = {n: list_read_before_mutating_call(f) for (n, f, _) in progs}
        shapes_arg = {n: list_read_before_mutating_call(f, call_parents=True) for (n, f, _) in progs}
        agree = []
        pairs, timeouts = equiv.make_pairs(progs, configs_general(), rng, nvec, stats, agree=agree)
        # pinned caller contexts: original evaluated with that context
        for C in (fp.MPFloatContext(3), fp.MPFixedContext(-1, fp.RM.RTZ), fp.IEEEContext(3, 6, fp.RM.RTP)):
            cfgs = [(f'monomorphize[{type(C).__name__}]', lambda f, C=C: fp.strategies.monomorphize(f, ctx=C)),
                    (f'monomorphize;simplify[{type(C).__name__}]', lambda f, C=C: fp.strategies.simplify(fp.strategies.monomorphize(f, ctx=C)))]
            sub = [q for q in progs if q[0].startswith('hand_')] + [q for q in progs if not q[0].startswith('hand_')][:: (1 if tier == 'thorough' else 2)]
            p2, t2 = equiv.make_pairs(sub, cfgs, rng, max(4, nvec // 2), stats, vectors_fn=vectors_fixed_ctx(C), pid0=len(pairs) + 1000, agree=agree)
            # renumber to keep pids unique
            for (o, x, m) in p2:
                o['pid'] = x['pid'] = len(pairs)
                pairs.append((o, x, m))
            timeouts += t2
        mm, skips, gen, dis = equiv.run_equiv(pairs)
    finally:
        shutil.rmtree(work, ignore_errors=True)
    rep.add_tlc(gen, dis)
    def key(meta, clause):
        if 'inline' in meta['config'] and shapes.get(meta['program']):
            return {'shape': 'list-read-before-inlined-mutating-call'}
        if meta['config'].startswith('inline[where=') and shapes_arg.get(meta['program']):
            # partial inlining: the enclosing call stays, its earlier argument is read after the spliced body
            return {'shape': 'list-read-argument-before-partially-inlined-mutating-call'}
        return {}
    equiv.report(rep, pairs, timeouts, mm, skips, stats, extra_key=key, agree=agree)
    equiv.run_agree(rep, agree, extra_key=key)
    rep.cov['distinct_nontrivial'] = len({(m['program'], m['xsrc']) for (_, _, m) in pairs})
    rep.cov['rule'] = ('hand-written + generated caller/callee programs x {inline all/one site/one level, close, lift_context, '
                       'monomorphize under 3 pinned contexts, compositions}; non-trivial = distinct transformed program')
    for (o, x, m) in pairs[:2]:
        rep.sample({'config': m['config'], 'src': m['src'], 'xsrc': m['xsrc']})
    return rep.finish()


def replay(path: str) -> int:
    import json
    print(json.dumps(json.loads(open(path).read()), indent=1)[:4000])
    return 0
