"""
C02 -- Arithmetic rounds the exact result exactly once.

Design level: spec/MCReRound.tla (round-to-odd at p+2 then re-round = round once).
Mode V: fpy2.ops.<op> on operand tuples of small formats (plus wider, int, float, Fraction
operands and specials) under contexts of every family; each record judged by Arith!OpVerdict
(exact result by Arith!Exact, rounded by Rounding!Expect).
"""
from __future__ import annotations

import itertools
import random
from fractions import Fraction

import fpy2 as fp
from fpy2 import ops
from fpy2.number import Float, RealFloat

from .. import core, gen_num
from ..export import OutOfDomain, ctx_json, num_json
from .c17 import RM, OV
from fpy2.number.context.efloat import EFloatContext, EFloatNanKind
from fpy2.number.context.fixed import FixedContext
from fpy2.number.context.ieee754 import IEEEContext
from fpy2.number.context.mp_fixed import MPFixedContext
from fpy2.number.context.mp_float import MPFloatContext
from fpy2.number.context.mpb_fixed import MPBFixedContext
from fpy2.number.context.mpb_float import MPBFloatContext
from fpy2.number.context.mps_float import MPSFloatContext
from fpy2.number.context.sm_fixed import SMFixedContext

BIN = ['add', 'sub', 'mul', 'div', 'mod', 'fmod', 'remainder', 'copysign', 'fdim', 'hypot', 'pow']
UN = ['neg', 'fabs', 'sqrt', 'cbrt', 'ceil', 'floor', 'trunc', 'roundint', 'nearbyint']


def target_contexts(tier: str):
    big = tier == 'thorough'
    out = []
    for rm in RM:
        out.append(MPFloatContext(2, rm))
        out.append(MPSFloatContext(3, -2, rm))
        out.append(IEEEContext(2, 5, rm))
        out.append(MPFixedContext(-2, rm))
        if big or rm in (RM.RNE, RM.RTN, RM.RTZ, RM.RTO):
            out.append(MPFloatContext(1, rm))
            out.append(MPFloatContext(4, rm))
            out.append(MPSFloatContext(2, 0, rm))
            out.append(EFloatContext(2, 4, False, EFloatNanKind.NONE, 0, rm, OV.SATURATE))
            out.append(EFloatContext(3, 5, True, EFloatNanKind.MAX_VAL, -1, rm))
            out.append(MPBFloatContext(3, -1, RealFloat(c=7, exp=0), rm, OV.OVERFLOW))
            out.append(FixedContext(True, -1, 5, rm, OV.SATURATE))
            out.append(FixedContext(False, 0, 4, rm, OV.WRAP))
            out.append(SMFixedContext(-2, 5, rm, OV.SATURATE))
            out.append(MPFixedContext(0, rm, enable_neg_zero=False))
            out.append(MPBFixedContext(-1, RealFloat(c=9, exp=0), rm, OV.SATURATE))
    out.append(fp.REAL)
    return out


def operands(tier: str):
    """(name, python object) operand pool"""
    big = tier == 'thorough'
    vals = set()
    for c in (1, 2, 3, 5, 7) + ((4, 6) if big else ()):
        for e in (-2, -1, 0, 1) + ((2,) if big else ()):
            vals.add(Fraction(c) * Fraction(2) ** e)
    vals = sorted(vals)
    if not big:
        vals = vals[::2]
    pool = []
    for q in vals:
        pool.append(Float(c=q.numerator, exp=-(q.denominator.bit_length() - 1)))
        pool.append(Float(s=True, c=q.numerator, exp=-(q.denominator.bit_length() - 1)))
    pool += [Float(c=77, exp=-6), Float(s=True, c=101, exp=-3), Float(c=33, exp=-5)]      # wider than any target
    pool += [Float(c=0, exp=0), Float(s=True, c=0, exp=0), Float(isinf=True), Float(isinf=True, s=True), Float(isnan=True)]
    pool += [3, -5, 0.375, -0.0, Fraction(1, 3), Fraction(-5, 7), Fraction(5, 2)]
    # rationals no Float holds, on either side of one half above an integer (a lost sticky digit turns 7/3 into a tie)
    pool += [Fraction(7, 3), Fraction(-22, 7), Fraction(8, 3), Fraction(-4, 3)]
    return pool


def grid_for(ctx) -> int:
    """grid exponent g for roots: finer than a quarter of the smallest gap reachable"""
    p, nmin, _ = gen_num._core(ctx)
    if p is None and nmin is None:
        return 4
    if p is None:
        return max(2, -(nmin + 1) + 3)
    if nmin is not None:
        return max(2, min(7, -(nmin + 1) + 3))
    return min(7, p + 5)


def _isnan(x):
    return (isinstance(x, Float) and x.isnan) or (isinstance(x, float) and x != x)


def _dyadic(x):
    return not isinstance(x, Fraction) or (x.denominator & (x.denominator - 1)) == 0


def record(job):
    ci, tier = job
    ctx = target_contexts(tier)[ci]
    cj = ctx_json(ctx)
    pool = operands(tier)
    g = grid_for(ctx)
    recs = []

    def emit(op, args):
        try:
            aj = [num_json(a) for a in args]
        except OutOfDomain:
            return
        try:
            r = getattr(ops, op)(*args, ctx=ctx)
            out = {'val': num_json(r)}
        except OutOfDomain:
            return
        except NotImplementedError:
            # an explicit refusal: the operation is not offered for these operand types / this context
            recs.append(None)
            return
        except Exception as e:      # noqa: BLE001
            out = {'err': type(e).__name__}
        recs.append({'op': op, 'ctx': cj, 'args': aj, 'g': g, 'out': out,
                     'at': [type(a).__name__ for a in args]})

    for op in UN:
        for a in pool:
            if op in ('sqrt', 'cbrt') and not _dyadic(a):
                continue
            if op == 'cbrt' and isinstance(a, Float) and not a.is_nar() and a.c > 7:
                continue
            emit(op, [a])
    for op in BIN:
        for a, b in itertools.product(pool, pool):
            if op == 'copysign' and _isnan(b):
                continue
            if op == 'hypot':
                if not (_dyadic(a) and _dyadic(b)):
                    continue
                big = [t for t in (a, b) if isinstance(t, Float) and not t.is_nar() and (t.c > 7 or abs(t.exp) > 2)]
                if big:
                    continue
            if op == 'pow':
                if not (isinstance(b, int) or (isinstance(b, Float) and not b.is_nar() and b.is_integer() and abs(int(b)) <= 6)):
                    continue
                if isinstance(b, int) and abs(b) > 6:
                    continue
                if isinstance(a, Float) and not a.is_nar() and a.c > 7:
                    continue
            emit(op, [a, b])
    small = [x for x in pool if not isinstance(x, Float) or x.is_nar() or x.c <= 5][:: (1 if tier == 'thorough' else 2)]
    for a, b, c in itertools.product(small[:14], small[:14], small[:14]):
        emit('fma', [a, b, c])
    return recs


def run(tier: str) -> int:
    rep = core.Report('C02', tier)
    mc = core.run_tlc('MCReRound', 'MCReRound', workers=core.NCPU, timeout=3000)
    if not mc.ok:
        print('MACHINERY: MCReRound failed\n' + mc.error)
        return 2
    rep.add_tlc(mc.generated, mc.distinct)
    rep.cov['design_level'] = {'module': 'MCReRound', 'states': mc.distinct}
    mut = core.run_tlc('MCReRound', 'MCReRound_mut', workers=core.NCPU, timeout=600)
    if 'Invariant DoubleRoundingSafe is violated' not in mut.output:
        print('MACHINERY: one guard digit (EXTRA=1) was not rejected by MCReRound')
        return 2
    n = len(target_contexts(tier))
    jobs = [(i, tier) for i in range(n)]
    if tier == 'quick':
        # a third of the contexts per seed (REAL always); every family and mode still occurs
        off = core.seed() % 3
        jobs = [j for k, j in enumerate(jobs) if k % 3 == off or k == n - 1]
    recs = [r for rs in core.pool_map(record, jobs, chunksize=2) for r in rs]
    rep.cov['not_offered'] = sum(1 for r in recs if r is None)
    recs = [r for r in recs if r is not None]
    for i, r in enumerate(recs):
        r['tid'] = i
    out = core.validate_trace('ArithTrace', recs)
    rep.add_tlc(out.generated, out.distinct)
    rep.cov['traces_validated_against_impl'] = len(recs)
    rep.cov['evaluations'] = len(recs)
    rep.cov['contexts'] = n
    rep.cov['distinct_nontrivial'] = len({(r['op'], repr(r['args']), repr(r['ctx'])) for r in recs
                                          if all(a['k'] == 'fin' and a['n'] != 0 for a in r['args'])})
    rep.cov['rule'] = ('20 operations x operand pool (two small formats, wider Floats, int, float, Fraction, zeros, infinities, NaN) '
                       'x target contexts of every family and mode; non-trivial = all operands finite and non-zero')
    rep.cov['exhaustive'] = True
    for r in recs[:: max(1, len(recs) // 5)][:5]:
        rep.sample(r)
    by = {r['tid']: r for r in recs}
    for mm in out.mismatches:
        r = by[mm[0]]
        special = any(a['k'] != 'fin' or a['n'] == 0 for a in r['args'])
        key = {'op': r['op'], 'clause': mm[1], 'fam': r['ctx']['fam'], 'special': special, 'rm': r['ctx'].get('rm', '')}
        rep.mismatch(key, r)
    rep.assumptions = ['roots: operands are dyadic; the enclosure grid 2^-g is finer than a quarter of every gap of the target',
                       'pow: integer exponents |n| <= 6 only (real exponents belong to C03)']
    return rep.finish()


def replay(path: str) -> int:
    return core.replay_saved('C02', 'ArithTrace', path, rerun=globals().get('_rerun'))
