"""
C07 -- simplify never changes what a program returns.

For generated programs (copies followed by redefinitions, constants under various contexts,
dead code, aliased lists, helper calls) the real ConstFold / CopyPropagate / DeadCodeEliminate
passes -- alone, in pairs in both orders, and iterated as `simplify` under the enable_* switches --
produce ASTs that TLC runs side by side with the original on spec/Equiv.tla for every input.
"""
from __future__ import annotations

import itertools
import random
import shutil
import tempfile
from collections import Counter

import fpy2 as fp
from fpy2.transform import ConstFold, CopyPropagate, DeadCodeEliminate

from .. import core, equiv, progrun

PROFILES = [
    {'copies': 0.1, 'consts': 0.4, 'with': 0.45, 'dead': 0.1, 'tuples': 0.15, 'lists': 0.1, 'calls': 0.05},
    {'copies': 0.25, 'consts': 0.2, 'dead': 0.15, 'with': 0.3, 'calls': 0.1},
    {'copies': 0.3, 'loops': 0.3, 'lists': 0.3, 'dead': 0.1, 'consts': 0.1},
    {'consts': 0.35, 'with': 0.4, 'dead': 0.2, 'copies': 0.1, 'early_return': 0.25},
]

HAND = {
    'hand_dyn_ctx': '''@fp.fpy
def hand_dyn_ctx(x: fp.Real, y: fp.Real, xs: list[fp.Real], k: fp.Real):
    with fp.MPFloatContext(3):
        with fp.MPFloatContext(k):
            a = 1.25 * 3 + 0.1
        with fp.MPFixedContext(-k, fp.RM.RTZ):
            b = 0.3 * 3
        c = 1.25 * 3 + 0.1
    return (a, b + x, c)''',
    'hand_nested_tuple': '''@fp.fpy
def hand_nested_tuple(x: fp.Real, y: fp.Real, xs: list[fp.Real], k: fp.Real):
    a = x
    b = y
    for e in xs:
        if e > 0:
            a, b = (b + e, a)
    if x > 0:
        if y > 0:
            a, b = (y + 1, x * 2)
    return a + b''',
    'hand_copy_redef': '''@fp.fpy
def hand_copy_redef(x: fp.Real, y: fp.Real, xs: list[fp.Real], k: fp.Real):
    t = x
    x = x + 1
    u = t * y
    return u + x''',
    'hand_alias_write': '''@fp.fpy
def hand_alias_write(x: fp.Real, y: fp.Real, xs: list[fp.Real], k: fp.Real):
    zs = [x, y, 1]
    ys = zs
    z = zs[0]
    ys[0] = z + 1
    w = zs[0]
    return w + z''',
    'hand_const_alias': '''@fp.fpy
def hand_const_alias(x: fp.Real, y: fp.Real, xs: list[fp.Real], k: fp.Real):
    with fp.MPFloatContext(5):
        us = [1, 2, 3]
        vs = us
        vs[0] = 5
        a = us[0]
        m = [[1, 2], [3, 4]]
        r = m[0]
        r[1] = 7
        b = m[0][1]
        t = (us, 4)
        p, q = t
        p[2] = 8
        c = us[2]
    return (a + x, b, c)''',
    'hand_const_callee_write': '''@fp.fpy
def hand_ccw_put(zs: list[fp.Real], v: fp.Real) -> fp.Real:
    zs[0] = v
    return 0

@fp.fpy
def hand_const_callee_write(x: fp.Real, y: fp.Real, xs: list[fp.Real], k: fp.Real):
    with fp.MPFloatContext(5):
        us = [1, 2, 3]
        t = hand_ccw_put(us, 9)
        a = us[0] + t
        for row in [[1, 2], [3, 4]]:
            row[0] = k
            a = a + row[0]
    return a + x''',
    'hand_copy_loop': '''@fp.fpy
def hand_copy_loop(x: fp.Real, y: fp.Real, xs: list[fp.Real], k: fp.Real):
    old = x
    i = 0
    while i < k:
        x = x * 2
        i = i + 1
    keep = y
    for e in xs:
        y = y + e
    return (x - old, y - keep)''',
    'hand_delay_line': '''@fp.fpy
def hand_delay_line(x: fp.Real, y: fp.Real, xs: list[fp.Real], k: fp.Real):
    with fp.MPFloatContext(6):
        d1 = 0
        d2 = 0
        d3 = 0
        acc = 0
        for e in xs:
            acc = acc + d3
            d3 = d2
            d2 = d1
            d1 = e
        c1 = 0
        c2 = 0
        c3 = 0
        c4 = 0
        c5 = 0
        out = 0
        for i in range(8):
            out = out + c5
            c5 = c4
            c4 = c3
            c3 = c2
            c2 = c1
            c1 = x + i
    return (acc, d3, out)''',
    'hand_zero_sign_merge': '''@fp.fpy
def hand_zero_sign_merge(x: fp.Real, y: fp.Real, xs: list[fp.Real], k: fp.Real):
    with fp.MPFloatContext(6):
        if x > 1:
            z = 0.0
        else:
            z = -0.0
        a = 1 / z
        w = 0.0
        for i in range(k):
            w = -w
        b = 1 / w
        us = [0.0, 1.0]
        if y > 1:
            us = [-0.0, 1.0]
        c = 1 / us[0]
    return (a, b, c)''',
    'hand_impure_callee': '''@fp.fpy
def hand_ic_touch(zs: list[fp.Real]) -> fp.Real:
    ys = zs
    ys[0] = 7
    return 0

@fp.fpy
def hand_ic_zero(zs: list[fp.Real]) -> fp.Real:
    for i in range(len(zs)):
        zs[i] = 0
    return 0

@fp.fpy
def hand_impure_callee(x: fp.Real, y: fp.Real, xs: list[fp.Real], k: fp.Real):
    us = [x, x]
    t = hand_ic_touch(us)
    vs = [y, y, 1]
    u = hand_ic_zero(vs)
    return (us[0], vs[1])''',
    'hand_stale_cond': '''@fp.fpy
def hand_stale_cond(x: fp.Real, y: fp.Real, xs: list[fp.Real], k: fp.Real):
    with fp.MPFloatContext(6):
        a = 0
        i = 0
        cnt = 0
        while i < k:
            j = 0
            while a < 1 and j < 3:
                a = a * 1
                j = j + 1
                cnt = cnt + 1
            a = 1
            i = i + 1
    return cnt''',
    'hand_const_return': '''@fp.fpy
def hand_const_return(x: fp.Real, y: fp.Real, xs: list[fp.Real], k: fp.Real):
    with fp.MPFloatContext(6):
        if 1 < 2:
            return x
    return x + 1''',
    'hand_tuple_holes': '''@fp.fpy
def hand_tuple_holes(x: fp.Real, y: fp.Real, xs: list[fp.Real], k: fp.Real):
    with fp.MPFloatContext(5):
        _, b = (1.0, 2.0)
        a, _, c = (3, 4, 5)
        (_, d), e = ((6, 7), 8)
        t2 = (0.5, 1.5, 2.5)
        _, _, g = t2
        if b > 1.5:
            h = c + d
        else:
            h = a + e
    return (b + x, c, d, e, g, h)''',
    'hand_store_through_call': '''@fp.fpy
def hand_stc_same(zs: list[fp.Real]) -> list[fp.Real]:
    return zs

@fp.fpy
def hand_stc_store(zs: list[fp.Real], v: fp.Real) -> fp.Real:
    ys = hand_stc_same(zs)
    ys[0] = v
    return 0

@fp.fpy
def hand_store_through_call(x: fp.Real, y: fp.Real, xs: list[fp.Real], k: fp.Real):
    us = [x, y]
    t1 = hand_stc_store(us, 7)
    vs = [y, x, 1]
    hand_stc_store(vs, k)
    return (us[0], vs[0])''',
    'hand_fold_ctx': '''@fp.fpy
def hand_fold_ctx(x: fp.Real, y: fp.Real, xs: list[fp.Real], k: fp.Real):
    a = 1.25 * 3
    with fp.MPFixedContext(-1, fp.RM.RTZ):
        b = 1.25 * 3
        with fp.MPFloatContext(2, fp.RM.RAZ):
            c = 1.25 * 3 + 0.1
    return (a, b, c + x)''',
    'hand_dead_effect': '''@fp.fpy
def hand_dead_effect(x: fp.Real, y: fp.Real, xs: list[fp.Real], k: fp.Real):
    zs = [x, y]
    ys = zs
    d = 5
    ys[1] = x * 2
    assert x == x or y == y
    if False:
        return 0
    return zs[1]''',
}


def configs(tier: str):
    out = []

    def simp(**kw):
        return lambda f: fp.strategies.simplify(f, **kw)
    out.append(('simplify', simp()))
    names = ['enable_const_fold', 'enable_const_fold_context', 'enable_const_fold_op', 'enable_copy_prop', 'enable_dead_code_elim']
    combos = list(itertools.product([True, False], repeat=5))
    if tier == 'quick':
        combos = [c for c in combos if sum(c) in (1, 3, 4)][::2]
    for c in combos:
        if all(c):
            continue
        kw = dict(zip(names, c))
        out.append(('simplify[' + ''.join('1' if b else '0' for b in c) + ']', simp(**kw)))
    passes = {
        'CF': lambda a: ConstFold.apply(a),
        'CP': lambda a: CopyPropagate.apply(a),
        'DCE': lambda a: DeadCodeEliminate.apply(a),
    }
    for n, p in passes.items():
        out.append((n, (lambda p: lambda f: f.with_ast(p(f.ast)))(p)))
    for (n1, p1), (n2, p2) in itertools.permutations(passes.items(), 2):
        out.append((f'{n1};{n2}', (lambda p1, p2: lambda f: f.with_ast(p2(p1(f.ast))))(p1, p2)))
    return out


def run(tier: str) -> int:
    rep = core.Report('C07', tier)
    nprog, nvec = (36, 8) if tier == 'quick' else (400, 16)
    rng = random.Random(core.seed() * 101 + 7)
    stats = Counter()
    work = tempfile.mkdtemp(prefix='verif-c07-')
    try:
        progs = []
        from .. import gen_prog
        hf, hrej = gen_prog.load_programs(HAND, work, 'c07hand')
        for n, f in hf.items():
            progs.append((n, f, HAND[n]))
        per = max(1, nprog // len(PROFILES))
        for k, prof in enumerate(PROFILES):
            srcs, funcs, rej = progrun.generate_and_load(core.seed() * 17 + k, per, prof, work, f'c7_{k}_')
            stats['rejected_by_front_end'] += len(rej)
            for n, f in funcs.items():
                progs.append((n, f, srcs[n]))
        agree = []
        pairs, timeouts = equiv.make_pairs(progs, configs(tier), rng, nvec, stats, agree=agree)
        lp, lt = equiv.library_pairs(configs(tier), rng, nvec, stats, agree, pid0=len(pairs) + 10000,
                                     every=(4 if tier == 'quick' else 1), phase=core.seed())
        pairs += lp
        timeouts += lt
        mm, skips, gen, dis = equiv.run_equiv(pairs)
    finally:
        shutil.rmtree(work, ignore_errors=True)
    rep.add_tlc(gen, dis)

    def shape(meta, clause):
        return {'program': meta['program']} if meta['program'].startswith('hand_') else {}
    equiv.report(rep, pairs, timeouts, mm, skips, stats, extra_key=shape, agree=agree)
    equiv.run_agree(rep, agree, extra_key=shape)
    rep.cov['distinct_nontrivial'] = len({(m['program'], m['xsrc']) for (_, _, m) in pairs})
    rep.cov['rule'] = ('hand-written + generated programs x {simplify under enable_* combinations, CF, CP, DCE, ordered pairs}; only '
                       'configurations whose output differs from the input and from each other are kept; non-trivial = distinct transformed program')
    for (o, x, m) in pairs[:2]:
        rep.sample({'config': m['config'], 'src': m['src'], 'xsrc': m['xsrc']})
    return rep.finish()


def replay(path: str) -> int:
    import json
    print(json.dumps(json.loads(open(path).read()), indent=1)[:4000])
    return 0
