"""Format bounds of fpy2.analysis.format_infer as the records spec/AbsFormat.tla reads."""
from __future__ import annotations

from fractions import Fraction

from fpy2.analysis.format_infer import AbstractFormat, ListFormat, SetFormat, TupleFormat
from fpy2.analysis.format_infer.analysis import NegZero, Special
from fpy2.analysis.format_infer.format import AbstractableFormat
from fpy2.number import RealFloat
from fpy2.number.context.format import Format

from .export import OutOfDomain, num_json

INF = {'k': 'inf'}


def bound_json(b, relax: bool):
    if isinstance(b, float):
        if b != b:
            raise OutOfDomain('nan bound')
        return dict(INF)
    try:
        return num_json(b)
    except OutOfDomain:
        if relax:
            return dict(INF)
        raise


def af_json(a: AbstractFormat, relax: bool = False) -> dict:
    prec = 0 if isinstance(a.prec, float) else int(a.prec)
    hasexp = not isinstance(a.exp, float)
    exp = int(a.exp) if hasexp else 0
    if abs(exp) > 2000 or prec > 4000:
        raise OutOfDomain('format parameters')
    return {'af': 1, 'prec': prec, 'hasexp': hasexp, 'exp': exp, 'pb': bound_json(a.pos_bound, relax),
            'nb': bound_json(a.neg_bound, relax), 'pinf': bool(a.has_pos_inf), 'ninf': bool(a.has_neg_inf),
            'nan': bool(a.has_nan), 'nz': bool(a.has_neg_zero)}


def setval_json(v) -> dict:
    if isinstance(v, NegZero):
        return {'k': 'fin', 's': 1, 'n': 0, 'd': 1}
    if isinstance(v, Special):
        return {Special.POS_INF: {'k': 'inf', 's': 0}, Special.NEG_INF: {'k': 'inf', 's': 1}, Special.NAN: {'k': 'nan'}}[v]
    if isinstance(v, (Fraction, int, RealFloat)):
        return num_json(v)
    raise OutOfDomain(f'set value {type(v).__name__}')


def fmt_json(f, relax: bool = True) -> dict:
    """FormatBound -> record.  relax=True: anything not expressible becomes 'top' (no claim), a bound too wide becomes unbounded."""
    try:
        if f is None:
            return {'none': True}
        if isinstance(f, SetFormat):
            return {'set': [setval_json(v) for v in sorted(f.values, key=repr)]}
        if isinstance(f, AbstractFormat):
            return af_json(f, relax)
        if isinstance(f, TupleFormat):
            return {'tuple': [fmt_json(x, relax) for x in f.elts]}
        if isinstance(f, ListFormat):
            return {'list': fmt_json(f.elt, relax)}
        if isinstance(f, Format):
            from fpy2.number.context.real import RealFormat
            if isinstance(f, RealFormat) or not isinstance(f, AbstractableFormat):
                return {'top': True}
            return af_json(AbstractFormat.from_format(f), relax)
    except OutOfDomain:
        if relax:
            return {'top': True}
        raise
    if relax:
        return {'top': True}
    raise OutOfDomain(f'format {type(f).__name__}')
