"""
The repository's own FPy libraries (fpy2.libraries.{core, vector, matrix, metrics}) as test subjects: real programs written by the
maintainers, exported like any other function.  Input vectors follow the parameter annotations (scalar / vector / matrix) and the
parameter names (a size or an index is a small integer), under small caller contexts so that the abstract machine can follow
the arithmetic exactly.
"""
from __future__ import annotations

import importlib
import random
from fractions import Fraction

import fpy2 as fp
from fpy2.function import Function

MODULES = ('core', 'vector', 'matrix', 'metrics')
INT_NAMES = {'n', 'rows', 'cols', 'i', 'j', 'p', 'k', 'm'}
SCAL = [0.0, -0.0, 1.0, 1.5, -1.25, 3.0, 0.375, 2.0, -2.0, 0.5, float('inf'), float('nan'), Fraction(1, 3)]
ELEMS = [0.0, 1.0, 1.5, -1.25, 2.0, -2.0, 0.5, 3.0, -0.0, 0.25]


def library_functions(modules=MODULES):
    out = []
    for modn in modules:
        m = importlib.import_module('fpy2.libraries.' + modn)
        for n in sorted(dir(m)):
            f = getattr(m, n)
            if isinstance(f, Function) and not n.startswith('_'):
                out.append((f'{modn}.{n}', f))
    return out


def caller_contexts():
    return [fp.MPFloatContext(4), fp.REAL, fp.MPFloatContext(3, fp.RM.RTZ), fp.IEEEContext(3, 7), fp.MPFixedContext(-2), None,
            fp.MPFloatContext(5, fp.RM.RAZ), fp.IEEEContext(4, 8, fp.RM.RTP)]


def _depth(t) -> int:
    d = 0
    while type(t).__name__ == 'ListTypeAnn':
        d += 1
        t = t.elt
    return d


def typed_vectors(fn: Function, rng: random.Random, n: int):
    """n (args, ctx) vectors for a library function.  Most vectors give all list parameters one common size (the functions assert
    it); one in six breaks that on purpose, one in eight puts a special value into a list."""
    ctxs = caller_contexts()
    out = []
    for i in range(n):
        size = rng.choice([0, 1, 2, 2, 3, 3])
        args = []
        for a in fn.ast.args:
            d = _depth(a.type)
            sz = size if rng.random() > 1 / 6 else rng.choice([0, 1, 2, 3])
            if d == 0:
                if str(a.name) in INT_NAMES:
                    args.append(rng.choice([0, 1, 2, 3, 1, 2, -1]) if rng.random() > 0.1 else rng.choice(SCAL))
                else:
                    args.append(rng.choice(SCAL))
            elif d == 1:
                v = [rng.choice(ELEMS) for _ in range(sz)]
                if v and rng.random() < 1 / 8:
                    v[rng.randrange(len(v))] = rng.choice([float('nan'), float('inf'), Fraction(1, 3)])
                args.append(v)
            else:
                cols = sz if rng.random() > 1 / 6 else rng.choice([1, 2, 3])
                args.append([[rng.choice(ELEMS) for _ in range(cols)] for _ in range(sz)])
        out.append((args, ctxs[i % len(ctxs)]))
    return out
