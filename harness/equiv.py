"""
Shared harness for the transform-equivalence properties (C07, C08, C09): applies real
transforms to generated programs, exports (original, transformed) pairs, and has TLC run
spec/Equiv.tla on every pair and input.
"""
from __future__ import annotations

import signal
from collections import Counter

from . import core, progrun
from .export import OutOfDomain
from .export_prog import Unsupported, export_program


class XTimeout(BaseException):
    pass


def _alarm(signum, frame):
    raise XTimeout()


def apply_transform(fn, limit: int = 20):
    """Runs a transform thunk under a wall-clock guard.  ('ok', Function) | ('declined', msg) | ('timeout', '')"""
    signal.signal(signal.SIGALRM, _alarm)
    signal.setitimer(signal.ITIMER_REAL, limit, 1.0)      # keeps firing if the first one is swallowed
    try:
        return ('ok', fn())
    except XTimeout:
        return ('timeout', '')
    except RecursionError as e:
        return ('declined', 'RecursionError')
    except Exception as e:      # noqa: BLE001   a refusal of the transform is not a violation
        return ('declined', f'{type(e).__name__}: {str(e)[:120]}')
    finally:
        signal.setitimer(signal.ITIMER_REAL, 0)


def _agree_records(fn, res, vec, pred, meta, agree, stats):
    """The machine cannot run one of the two programs (a construct it does not model): the real interpreter's outcomes on the original and
    on the transformed program are still a pair the specification can judge (spec/Agree.tla: same shape, lengths, booleans, number bits)."""
    n = 0
    for (args, ctx) in vec:
        if pred is not None and not pred(args):
            continue
        try:
            a = progrun.run_real(fn, args, ctx)
            b = progrun.run_real(res, args, ctx)
        except Exception:       # noqa: BLE001
            continue
        if 'ood' in a or 'ood' in b:
            continue
        agree.append(dict(meta, a=a, b=b, args=repr(args), ctx=str(ctx)))
        n += 1
    stats['pairs-judged-on-interpreter-outcomes-only'] += 1 if n else 0


def make_pairs(progs_src, configs, rng, nvec: int, stats: Counter, vectors_fn=None, pid0: int = 0, agree=None):
    """progs_src: list of (name, Function, source).  configs: list of (cfgname, fn -> Function).
    Returns (pairs, timeouts) where a pair is (orig_prog, xf_prog, meta).  With `agree` (a list), programs the machine cannot run are
    still compared: (original outcome, transformed outcome) records are appended to it for run_agree."""
    pairs, timeouts = [], []
    pid = pid0
    for (name, fn, src) in progs_src:
        vec = (vectors_fn or progrun.input_vectors)(rng, nvec)
        try:
            base = progrun.record_program(fn, 0, vec, src)
        except Exception as e:      # noqa: BLE001
            stats['export-failed'] += 1
            continue
        if isinstance(base, tuple):
            stats['orig-' + base[0]] += 1
            if agree is not None and base[0] == 'unsupported':
                for cfg in configs:
                    st, res = apply_transform(lambda: cfg[1](fn))
                    if st == 'timeout':
                        timeouts.append({'program': name, 'config': cfg[0], 'src': src})
                        break
                    if st != 'ok':
                        stats['declined'] += 1
                        continue
                    try:
                        text = res.format()
                    except Exception:       # noqa: BLE001
                        text = ''
                    if text == fn.format():
                        continue
                    _agree_records(fn, res, vec, cfg[2] if len(cfg) > 2 else None,
                                   {'program': name, 'config': cfg[0], 'src': src, 'xsrc': text}, agree, stats)
            continue
        seen = {fn.format()}
        nto = 0
        for cfg in configs:
            cname, tf = cfg[0], cfg[1]
            pred = cfg[2] if len(cfg) > 2 else None
            if nto >= 2:
                break               # this program sends the transform into a loop; two witnesses are enough
            st, res = apply_transform(lambda: tf(fn))
            if st == 'timeout':
                timeouts.append({'program': name, 'config': cname, 'src': src})
                nto += 1
                continue
            if st == 'declined':
                stats['declined'] += 1
                continue
            try:
                text = res.format()
            except Exception:       # noqa: BLE001
                text = None
            if text in seen:
                stats['unchanged-or-duplicate'] += 1
                continue
            seen.add(text)
            if text is not None and len(text) > 40000:
                stats['xform-too-large'] += 1      # nested unrolling blows the program up; nothing to learn from it
                continue
            try:
                xp, _ = export_program(res, pid)
            except (Unsupported, OutOfDomain) as e:
                stats['xform-unsupported'] += 1
                if agree is not None and isinstance(e, Unsupported):
                    _agree_records(fn, res, vec, pred, {'program': name, 'config': cname, 'src': src, 'xsrc': text or ''}, agree, stats)
                continue
            # same input vectors as the original (those that were exportable)
            # first call compiles the function: do it outside the per-input time limit
            if vec:
                progrun.run_real(res, vec[0][0], vec[0][1], limit=60)
            xins = []
            keep = []
            j = 0
            for (args, ctx) in vec:
                try:
                    aj = [progrun.value_json(a) for a in args]
                except (OutOfDomain, Unsupported):
                    continue
                j += 1
                if pred is not None and not pred(args):
                    continue            # outside the stated precondition of this configuration
                keep.append(j - 1)
                out = progrun.run_real(res, args, ctx)
                if 'ood' in out:
                    out = {'err': 'OutOfDomainValue'}
                xins.append({'args': aj, 'ctx': [] if ctx is None else [progrun.ctx_json(ctx)], 'out': out})
            if j != len(base['inputs']):
                stats['input-mismatch'] += 1
                continue
            if not xins:
                continue
            o = dict(base)
            o['inputs'] = [base['inputs'][i] for i in keep]
            o['pid'] = pid
            xp['pid'] = pid
            xp['inputs'] = xins
            pairs.append((o, xp, {'program': name, 'config': cname, 'src': src, 'xsrc': text or ''}))
            pid += 1
    return pairs, timeouts


def library_pairs(configs, rng, nvec: int, stats: Counter, agree, pid0: int, every: int = 1, phase: int = 0):
    """Pairs for the repository's own library functions (harness/libprogs.py), each with input vectors that follow its annotations."""
    from . import libprogs
    pairs, timeouts = [], []
    # a configuration with a precondition states it in terms of the generated programs' signature: not applicable here
    configs = [c for c in configs if len(c) < 3 or c[2] is None]
    for i, (name, fn) in enumerate(libprogs.library_functions()):
        if (i + phase) % every:
            continue
        src = f'# fpy2.libraries.{name}\n' + fn.format()
        p, t = make_pairs([('lib_' + name, fn, src)], configs, rng, nvec, stats,
                          vectors_fn=lambda r, n, fn=fn: libprogs.typed_vectors(fn, r, n), pid0=pid0 + len(pairs), agree=agree)
        pairs += p
        timeouts += t
        stats['library_functions'] += 1
    return pairs, timeouts


def run_equiv(pairs, timeout: int = 3000):
    """TLC over the pairs; returns (mm, skips, generated, distinct)."""
    flat = []
    for (o, x, _) in pairs:
        flat.append(o)
        flat.append(x)
    if not flat:
        return [], [], 0, 0
    # shards must keep pairs together: shard on pair index
    import json, os, shutil, tempfile
    import concurrent.futures as cf
    n = min(core.NCPU, max(1, len(pairs) // 6))
    work = tempfile.mkdtemp(prefix='verif-equiv-')
    try:
        files = []
        for i in range(n):
            fp_ = os.path.join(work, f'pairs{i}.ndjson')
            with open(fp_, 'w') as f:
                for (o, x, _) in pairs[i::n]:
                    for p in (o, x):
                        f.write(json.dumps({k: v for k, v in p.items() if k != 'src'}, separators=(',', ':')) + '\n')
            files.append(fp_)

        def one(i):
            return core.run_tlc('Equiv', 'Equiv', env={'PROG_FILE': files[i]}, workers=1, timeout=timeout)
        with cf.ThreadPoolExecutor(max_workers=core.NCPU) as ex:
            results = list(ex.map(one, range(n)))
        mm, skips, gen, dis = [], [], 0, 0
        for i, r in enumerate(results):
            if not r.ok:
                raise core.MachineryError(f'TLC failed on pair shard {i}: {r.error[:1500]}')
            gen += r.generated
            dis += r.distinct
            for ln in r.prints:
                t = core.parse_tuple(ln)
                if t and t[0] == 'MM':
                    mm.append(tuple(t[1:]))
                elif t and t[0] == 'SKIP':
                    skips.append(tuple(t[1:]))
        return mm, skips, gen, dis
    finally:
        shutil.rmtree(work, ignore_errors=True)


def _zero_sign_only(a, b):
    if isinstance(a, dict) and isinstance(b, dict):
        if a.get('k') == 'fin' and b.get('k') == 'fin' and a.get('n') == 0 and b.get('n') == 0:
            return True
        return a.keys() == b.keys() and all(_zero_sign_only(a[k], b[k]) for k in a)
    if isinstance(a, list) and isinstance(b, list):
        return len(a) == len(b) and all(_zero_sign_only(x, y) for x, y in zip(a, b))
    return a == b


def run_agree(rep: core.Report, agree, extra_key=None, precondition_error=None):
    """TLC (spec/Agree.tla) over (original outcome, transformed outcome) records of the real interpreter."""
    if not agree:
        rep.cov['interpreter_outcome_pairs'] = 0
        return
    for i, r in enumerate(agree):
        r['tid'] = i
    out = core.validate_trace('Agree', [{'tid': r['tid'], 'a': r['a'], 'b': r['b']} for r in agree], cfg='Agree')
    rep.add_tlc(out.generated, out.distinct)
    names = {'compiled-code-failed': 'transformed-raises', 'compiled-result-differs': 'transformed-value'}
    n = 0
    for mm in out.mismatches:
        r = agree[mm[0]]
        clause = names.get(mm[1], mm[1])
        if clause == 'transformed-raises' and precondition_error is not None and precondition_error(r, r['b'].get('err', '')):
            continue
        if clause == 'transformed-value' and 'RTN' in (r['src'] + r['xsrc'] + r['ctx']) and _zero_sign_only(r['a'], r['b']):
            continue            # the sign of an exactly cancelled sum under RTN is left open
        key = {'clause': clause, 'config': r['config']}
        if extra_key:
            key.update(extra_key(r, clause))
        rep.mismatch(key, {k: r[k] for k in ('program', 'config', 'src', 'xsrc', 'args', 'ctx', 'a', 'b')} | {'clause': clause})
        n += 1
    rep.cov['interpreter_outcome_pairs'] = len(agree)


RESCUABLE = {'OutOfDomain', 'WideValue', 'TypeError', 'ValueError', 'IndexError', 'Undefined', 'RTNZeroSign'}


def report(rep: core.Report, pairs, timeouts, mm, skips, stats, extra_key=None, precondition_error=None, agree=None):
    """With `agree` (a list): an input the machine could not judge (values leave its small domain, a wide Python number, ...) on which the
    REAL original returned is not lost: the recorded (original, transformed) outcomes of the real interpreter become a record for run_agree."""
    by = {o['pid']: (o, x, meta) for (o, x, meta) in pairs}
    skips = list(skips)
    for (pid, idx, clause, merr) in mm:
        o, x, meta = by[pid]
        if clause == 'model-raises' and merr in ('TypeError', 'ValueError') and progrun.has_big(o['inputs'][idx - 1]['args']):
            skips.append((pid, idx, 'skip', 'WideValue'))
            continue
        if clause.endswith('zero-sign') and (progrun.rtn_involved(o, o['inputs'][idx - 1]) or progrun.rtn_involved(x, x['inputs'][idx - 1])):
            skips.append((pid, idx, 'skip', 'RTNZeroSign'))
            continue
        if precondition_error is not None and clause in ('model-raises', 'code-raises'):
            err = merr if clause == 'model-raises' else x['inputs'][idx - 1]['out'].get('err', '')
            if precondition_error(meta, err):
                skips.append((pid, idx, 'skip', 'PreconditionNotMet'))
                continue
        key = {'clause': clause, 'config': meta['config']}
        if extra_key:
            key.update(extra_key(meta, clause))
        rep.mismatch(key, {'program': meta['program'], 'config': meta['config'], 'src': meta['src'], 'xsrc': meta['xsrc'],
                           'input': o['inputs'][idx - 1], 'xform_real_outcome': x['inputs'][idx - 1]['out'],
                           'clause': clause, 'machine_error': merr})
    for t in timeouts:
        rep.mismatch({'clause': 'transform-does-not-terminate', 'config': t['config']}, t)
    if agree is not None:
        import json
        resc = 0
        for (pid, idx, kind, merr) in skips:
            o, x, meta = by[pid]
            a, b = o['inputs'][idx - 1]['out'], x['inputs'][idx - 1]['out']
            if merr not in RESCUABLE or 'val' not in a or b.get('err') == 'OutOfDomainValue':
                continue
            agree.append(dict(meta, a=a, b=b, args=json.dumps(o['inputs'][idx - 1]['args'])[:2000], ctx=json.dumps(o['inputs'][idx - 1]['ctx'])))
            resc += 1
        rep.cov['machine_skips_judged_on_interpreter_outcomes'] = resc
    skipc = Counter(s[2] + ':' + str(s[3]) for s in skips)
    runs = sum(len(o['inputs']) for (o, _, _) in pairs)
    na = sum(v for k, v in skipc.items() if k.startswith('na'))
    rep.cov.update({'programs': len({m['program'] for (_, _, m) in pairs}), 'pairs': len(pairs), 'evaluations': runs,
                    'traces_validated_against_impl': runs - sum(skipc.values()),
                    'original_returns_and_compared': runs - sum(skipc.values()),
                    'skipped_by_reason': dict(skipc), 'generation': dict(stats), 'transform_timeouts': len(timeouts)})
    return skipc
