"""
Statement-level traces of the REAL interpreter, without a hook in /repo.

The interpreter compiles an FPy function to Python code that keeps the function's name, the names of its variables and the
line numbers of its statements, so `sys.settrace` on the outermost frame of the compiled function sees one 'line' event per
statement about to run, with the variables' current values in `frame.f_locals`.  A run is recorded as the sequence of those
events (line, variables whose value changed since the previous event, identity classes of the list-valued variables) and what
the call returned.  spec/StmtTrace.tla replays such a trace against the facts the static analyses reported for the statements
(harness side: `static_info`), keeping its own state (current environment, last definition site of every name).

This needs no abstract machine, so it also covers what FPyMachine.tla does not model: binary64 arithmetic, wide values,
`isnormal`, constructs the exporter refuses.
"""
from __future__ import annotations

import copy
import signal
import sys

from fpy2.analysis import Alias, ArraySizeInfer, ContextUse, DefineUse, PartialEval, Purity, TypeInfer, ValueClassInfer
from fpy2.analysis.array_size import ListSize, TupleSize
from fpy2.analysis.reaching_defs import AssignDef
from fpy2.analysis.value_class import ValueClass
from fpy2.ast import fpyast as A
from fpy2.types import BoolType, ContextType, ListType, RealType, TupleType
from fpy2.function import Function
from fpy2.number import Context
from fpy2.utils import NamedId

from .export import OutOfDomain
from .export_prog import Unsupported, _slots, value_json
from .progrun import Timeout, _alarm


class NotTraceable(Exception):
    pass


# ---------------------------------------------------------------------------------------------------------------------
# facts as JSON

def ty_json(t):
    if isinstance(t, RealType):
        return {'t': 'real'}
    if isinstance(t, BoolType):
        return {'t': 'bool'}
    if isinstance(t, ContextType):
        return {'t': 'ctx'}
    if isinstance(t, ListType):
        return {'t': 'list', 'e': ty_json(t.elt)}
    if isinstance(t, TupleType):
        return {'t': 'tuple', 'es': [ty_json(x) for x in t.elts]}
    return {'t': 'any'}


def sz_json(b):
    if isinstance(b, ListSize):
        return {'list': {'n': b.size if isinstance(b.size, int) else -1, 'e': sz_json(b.elt)}}
    if isinstance(b, TupleSize):
        return {'tuple': [sz_json(x) for x in b.elts]}
    return {'none': True}


def vc_json(v):
    if v is None:
        return ['top']
    out = []
    for flag, name in ((ValueClass.NAN, 'nan'), (ValueClass.INF, 'inf'), (ValueClass.ZERO, 'zero'), (ValueClass.FINITE, 'fin')):
        if flag in v:
            out.append(name)
    return out


def _const_json(v):
    try:
        return [value_json(v)]
    except (Unsupported, OutOfDomain):
        return []


def _reaching(du, d, seen=None):
    seen = set() if seen is None else seen
    if isinstance(d, AssignDef):
        return {d}
    if d in seen:
        return set()
    seen.add(d)
    return _reaching(du, du.defs[d.lhs], seen) | _reaching(du, du.defs[d.rhs], seen)


def _names(binding):
    if isinstance(binding, NamedId):
        return [binding]
    if isinstance(binding, A.TupleBinding):
        out = []
        for e in binding.elts:
            out += _names(e)
        return out
    return []


def _one_line(node) -> bool:
    loc = getattr(node, 'loc', None)
    return loc is not None and loc.start_line == loc.end_line


def static_info(fn, fmt_of_def=None, fmt_of_expr=None):
    """Per-line facts of fn's main body.  Raises NotTraceable when a statement spans lines or two statements share one.
    fmt_of_def(d) / fmt_of_expr(e) optionally give C14 format bounds (already as JSON) for a definition / a returned expression."""
    ast = fn.ast
    du = DefineUse.analyze(ast)
    ti = TypeInfer.check(ast, def_use=du)
    pev = PartialEval.apply(ast, def_use=du)
    sz = ArraySizeInfer.analyze(ast, partial_eval=pev, type_info=ti)
    vc = ValueClassInfer.analyze(ast, def_use=du, type_info=ti)
    al = Alias.analyze(ast, def_use=du, type_info=ti)

    lines: dict = {}
    owner: dict = {}
    purity_of: dict = {}

    # what the context-use analysis resolved each scope to (only concrete contexts are claims)
    cu_scope_of = None
    decl = []
    try:
        cu = ContextUse.analyze(ast, partial_eval=pev)
        resolved = {id(sc.site): sc.ctx for sc in cu.scopes}

        def _cj(c):
            if not isinstance(c, Context):
                return None
            try:
                return value_json(c)
            except (Unsupported, OutOfDomain, TypeError, ValueError):
                return None

        def cu_scope_of(st):
            return _cj(resolved.get(id(st)))
        d0 = _cj(resolved.get(id(ast)))
        if d0 is not None:
            decl = [d0]
    except Exception:       # noqa: BLE001   a refusal of the analysis is no claim
        cu_scope_of = None

    def only_pure_calls(node) -> bool:
        """every call in the statement's own expressions goes to a context constructor or to a function the purity analysis calls pure"""
        ok = True

        def go(n):
            nonlocal ok
            if isinstance(n, A.StmtBlock):
                return
            if isinstance(n, A.Call):
                fnobj = n.fn
                if isinstance(fnobj, type) and issubclass(fnobj, Context):
                    pass
                elif isinstance(fnobj, Function):
                    if id(fnobj) not in purity_of:
                        try:
                            purity_of[id(fnobj)] = bool(Purity.analyze(fnobj.ast))
                        except Exception:       # noqa: BLE001
                            purity_of[id(fnobj)] = False
                    ok = ok and purity_of[id(fnobj)]
                else:
                    ok = False
            if isinstance(n, A.Ast):
                for sl in _slots(n):
                    go(getattr(n, sl, None))
            elif isinstance(n, (list, tuple)):
                for x in n:
                    go(x)
        for sl in _slots(node):
            v = getattr(node, sl, None)
            if not isinstance(v, A.StmtBlock):
                go(v)
        return ok

    def line_of(st) -> int:
        return st.loc.start_line

    def first_line(block) -> int:
        return line_of(block.stmts[0]) if block.stmts else -1

    def walk_expr(node, st):
        if isinstance(node, A.Ast):
            owner[id(node)] = st
            for s in _slots(node):
                v = getattr(node, s, None)
                if isinstance(v, A.StmtBlock):
                    continue
                walk_expr(v, st)
        elif isinstance(node, (list, tuple)):
            for x in node:
                walk_expr(x, st)

    def def_facts(name, site):
        d = du.site_to_def.get((name, site))
        if d is None:
            return None
        f = {'n': str(name), 'ty': ty_json(ti.by_def.get(d)), 'sz': sz_json(sz.by_def.get(d)), 'vc': vc_json(vc.by_def.get(d)),
             'pe': [], 'fmt': []}
        if fmt_of_def is not None:
            b = fmt_of_def(d)
            if b is not None:
                f['fmt'] = [b]
        return f

    def visit_block(block, scope='0'):
        for st in block.stmts:
            L = line_of(st)
            if L in lines:
                raise NotTraceable('two statements on one line')
            rec = {'k': 'other', 'defs': [], 'redef': [], 'uses': [], 'b0': -1, 'body': [], 'cc': [], 'ret': [],
                   'frame': not isinstance(st, A.IndexedAssign) and only_pure_calls(st), 'sc': scope, 'wc': [], 'wt': []}
            lines[L] = rec
            owner[id(st)] = st
            if isinstance(st, A.Assign):
                if not _one_line(st):
                    raise NotTraceable('statement spans lines')
                rec['k'] = 'assign'
                walk_expr(st.expr, st)
                for n in _names(st.target):
                    f = def_facts(n, st)
                    if f is not None:
                        if isinstance(st.target, NamedId) and st.expr in pev.by_expr:
                            f['pe'] = _const_json(pev.by_expr[st.expr])
                        rec['defs'].append(f)
            elif isinstance(st, A.IndexedAssign):
                if not _one_line(st):
                    raise NotTraceable('statement spans lines')
                # the analyses count a store into a list as a new definition of the variable (same list, new contents)
                rec['k'] = 'iassign'
                rec['redef'] = [str(st.var)]
                walk_expr(st.indices, st)
                walk_expr(st.expr, st)
            elif isinstance(st, (A.IfStmt, A.If1Stmt)):
                if not _one_line(st.cond):
                    raise NotTraceable('condition spans lines')
                rec['k'] = 'if'
                walk_expr(st.cond, st)
                ift = st.ift if isinstance(st, A.IfStmt) else st.body
                rec['b0'] = first_line(ift)
                if st.cond in pev.by_expr and isinstance(pev.by_expr[st.cond], bool):
                    rec['cc'] = [pev.by_expr[st.cond]]
                visit_block(ift, scope)
                if isinstance(st, A.IfStmt):
                    visit_block(st.iff, scope)
            elif isinstance(st, A.WhileStmt):
                if not _one_line(st.cond):
                    raise NotTraceable('condition spans lines')
                rec['k'] = 'while'
                walk_expr(st.cond, st)
                rec['b0'] = first_line(st.body)
                if st.cond in pev.by_expr and isinstance(pev.by_expr[st.cond], bool):
                    rec['cc'] = [pev.by_expr[st.cond]]
                visit_block(st.body, scope)
            elif isinstance(st, A.ForStmt):
                if not _one_line(st.iterable):
                    raise NotTraceable('iterable spans lines')
                rec['k'] = 'for'
                walk_expr(st.iterable, st)
                rec['b0'] = first_line(st.body)
                for n in _names(st.target):
                    f = def_facts(n, st)
                    if f is not None:
                        rec['defs'].append(f)
                before = set(lines)
                visit_block(st.body, scope)
                rec['body'] = sorted(str(x) for x in set(lines) - before)
            elif isinstance(st, A.ContextStmt):
                if not _one_line(st.ctx):
                    raise NotTraceable('context spans lines')
                rec['k'] = 'with'
                walk_expr(st.ctx, st)
                rec['b0'] = first_line(st.body)
                if isinstance(st.target, NamedId):
                    f = def_facts(st.target, st)
                    if f is not None:
                        rec['defs'].append(f)
                # what the context-use analysis resolved the block's context to (a concrete context), and the `as` target
                if cu_scope_of is not None:
                    cj = cu_scope_of(st)
                    if cj is not None:
                        rec['wc'] = [cj]
                if isinstance(st.target, NamedId):
                    rec['wt'] = [str(st.target)]
                before = set(lines)
                visit_block(st.body, str(L))
                rec['body'] = sorted(str(x) for x in set(lines) - before)
            elif isinstance(st, A.ReturnStmt):
                if not _one_line(st):
                    raise NotTraceable('statement spans lines')
                rec['k'] = 'return'
                walk_expr(st.expr, st)
                r = {'pe': [], 'fmt': []}
                if st.expr in pev.by_expr:
                    r['pe'] = _const_json(pev.by_expr[st.expr])
                if fmt_of_expr is not None:
                    b = fmt_of_expr(st.expr)
                    if b is not None:
                        r['fmt'] = [b]
                rec['ret'] = [r]
            else:
                if not _one_line(st):
                    raise NotTraceable('statement spans lines')
                for s in _slots(st):
                    walk_expr(getattr(st, s, None), st)
    visit_block(ast.body)

    def site_line(d) -> int:
        if isinstance(d.site, A.Stmt):
            return d.site.loc.start_line
        if isinstance(d.site, A.ListComp):
            return -7
        return 0            # a parameter (or a free variable)

    for use, d in du.use_to_def.items():
        if isinstance(use, A.Var):
            name = use.name
        elif isinstance(use, A.IndexedAssign):
            name = use.var
        else:
            continue
        st = use if isinstance(use, A.Stmt) else owner.get(id(use))
        if st is None or not isinstance(st, A.Stmt):
            continue
        rs = _reaching(du, d)
        if any(isinstance(r.site, A.ListComp) for r in rs):
            continue            # a comprehension-local name
        lines[st.loc.start_line]['uses'].append({'n': str(name), 'ds': sorted({str(site_line(r)) for r in rs})})

    params = []
    for a in ast.args:
        if not isinstance(a.name, NamedId):
            continue
        f = def_facts(a.name, a)
        if f is not None:
            params.append(f)

    regs: dict = {}
    for d in al.all_defs():
        r = al.region_of(d)
        if r is not None:
            regs.setdefault(id(r), set()).add(str(d.name))
    pairs = set()
    for names in regs.values():
        for a in names:
            for b in names:
                if a < b:
                    pairs.add((a, b))
    nfacts = sum(4 * len(r['defs']) + len(r['uses']) + len(r['cc']) + len(r['ret']) for r in lines.values()) + 3 * len(params) + len(pairs)
    try:
        pure = [bool(Purity.analyze(ast))]
    except Exception:       # noqa: BLE001   a refusal (recursion, ...) is no claim
        pure = []
    names = sorted({f['n'] for r in lines.values() for f in r['defs']} | {f['n'] for f in params})
    return {'name': ast.name, 'lines': {str(k): v for k, v in lines.items()}, 'params': params, 'names': names, 'pure': pure, 'decl': decl,
            'alias': sorted([list(p) for p in pairs]), 'nfacts': nfacts}


# ---------------------------------------------------------------------------------------------------------------------
# recording a run

def _snapshot(frame_locals, wanted):
    vals, objs = {}, {}
    for k, v in frame_locals.items():
        if k == '__ctx__':
            # the active rounding context of the compiled code
            try:
                vals[k] = value_json(v)
            except (Unsupported, OutOfDomain, TypeError, ValueError):
                vals[k] = {'k': 'ctx', 'c': {'fam': 'opaque', 'repr': str(v)[:200]}}
            continue
        if k.startswith('__') or (wanted is not None and k not in wanted):
            continue
        try:
            vals[k] = value_json(v)
        except (Unsupported, OutOfDomain, TypeError, ValueError):
            continue
        if isinstance(v, list):
            objs[k] = id(v)
    return vals, objs


def record_run(fn, args, ctx, names=None, limit: int = 10, max_events: int = 400, known_lines=None, with_lines=None):
    """Runs fn(*args, ctx=ctx) under a line tracer.  Returns {'ev': [...], 'ret': [value] | [], 'exc': bool, 'err': str} or None
    when the run is too long to ship."""
    name = fn.ast.name
    src, l0, l1 = fn.ast.loc.source, fn.ast.loc.start_line, fn.ast.loc.end_line
    a = copy.deepcopy(args)

    def _args_json():
        out_ = []
        for x in a:
            try:
                out_.append(value_json(x))
            except (Unsupported, OutOfDomain, TypeError, ValueError):
                out_.append(None)
        return out_
    before = _args_json()
    state = {'frame': None, 'events': [], 'over': False}
    prev_vals: dict = {}

    def local(frame, event, arg):
        if frame is not state['frame']:
            return None
        if event == 'line':
            if len(state['events']) >= max_events:
                state['over'] = True
                return None
            vals, objs = _snapshot(frame.f_locals, names)
            delta = {k: v for k, v in vals.items() if prev_vals.get(k) != v}
            prev_vals.update(delta)
            classes: dict = {}
            for k, o in objs.items():
                classes.setdefault(o, []).append(k)
            same = sorted(sorted(ns) for ns in classes.values() if len(ns) > 1)
            state['events'].append({'l': str(frame.f_lineno), 'v': delta, 'same': same})
        elif event == 'exception':
            state['events'].append({'l': 'EXC', 'v': {}, 'same': []})
        return local

    def tracer(frame, event, arg):
        co = frame.f_code
        if event == 'call' and state['frame'] is None and co.co_name == name and co.co_filename == src and l0 <= co.co_firstlineno <= l1:
            state['frame'] = frame
            return local
        return None

    signal.signal(signal.SIGALRM, _alarm)
    signal.setitimer(signal.ITIMER_REAL, limit, 1.0)
    out = {'ev': [], 'ret': [], 'exc': False, 'err': '', 'cx0': []}
    # the context the body starts under: the declared one, else the caller's, else binary64
    import fpy2 as _fp
    entry = fn.ast.ctx if fn.ast.ctx is not None else (ctx if ctx is not None else _fp.FP64)
    if isinstance(entry, Context):
        try:
            out['cx0'] = [value_json(entry)]
        except (Unsupported, OutOfDomain, TypeError, ValueError):
            out['cx0'] = [{'k': 'ctx', 'c': {'fam': 'opaque', 'repr': str(entry)[:200]}}]
    try:
        sys.settrace(tracer)
        try:
            r = fn(*a) if ctx is None else fn(*a, ctx=ctx)
        finally:
            sys.settrace(None)
        try:
            out['ret'] = [value_json(r)]
        except (Unsupported, OutOfDomain):
            out['ret'] = []
    except Timeout:
        return None
    except RecursionError:
        out['exc'], out['err'] = True, 'RecursionError'
    except Exception as e:      # noqa: BLE001
        out['exc'], out['err'] = True, type(e).__name__
    finally:
        sys.settrace(None)
        signal.setitimer(signal.ITIMER_REAL, 0)
    if state['over'] or not state['events']:
        return None
    # an exception on its way out passes through the enclosing `with` headers (their __exit__ runs): those events are not statements
    # about to run, and the statement that raised did not complete
    evs = state['events']
    if out['exc']:
        marks = [j for j, e in enumerate(evs) if e['l'] == 'EXC']
        if marks:
            evs = evs[:marks[0]] if all(e['l'] == 'EXC' or (with_lines is not None and e['l'] in with_lines) for e in evs[marks[0]:]) else evs
    state['events'] = [e for e in evs if e['l'] != 'EXC']
    # consecutive events of one line are one statement (the steps of a comprehension): keep the first, hand the changes on
    merged: list = []
    carry: dict = {}
    for e in state['events']:
        # an event of a line that is no statement of the function (code the compiler made up, e.g. while entering a `with`) belongs to
        # the statement under way
        if merged and (merged[-1]['l'] == e['l'] or (known_lines is not None and e['l'] not in known_lines)):
            carry.update(e['v'])
            continue
        if carry:
            e = dict(e, v={**carry, **e['v']})
            carry = {}
        merged.append(e)
    out['ev'] = merged
    out['mut'] = before != _args_json()         # did the call change a list the caller handed in?
    out['tail'] = carry          # changes made by the last statement after its first event (nothing reads them)
    return out


def validate(records, progs, timeout: int = 3000):
    """TLC (spec/StmtTrace.tla) over recorded runs.  progs: list of static_info dicts (position = pid, 1-based in the records).
    Returns core.ShardOutcome; mismatches are (tid, clause, what)."""
    import json
    import os
    import tempfile
    from . import core
    work = tempfile.mkdtemp(prefix='verif-stmt-')
    try:
        pf = os.path.join(work, 'progs.ndjson')
        with open(pf, 'w') as f:
            for p in progs:
                f.write(json.dumps({k: v for k, v in p.items() if k not in ('src',)}, separators=(',', ':')) + '\n')
        n = min(core.NCPU, max(1, len(records) // 150))
        # running total of steps per shard (validate_trace deals records[i::n] to shard i): the acceptance condition compares it with
        # the number of states TLC went through
        for i in range(n):
            cum = 0
            for r in records[i::n]:
                cum += len(r['ev']) + 1
                r['cum'] = cum
        return core.validate_trace('StmtTrace', records, nshards=n, cfg='StmtTrace', env={'PROG_FILE': pf}, timeout=timeout)
    finally:
        import shutil
        shutil.rmtree(work, ignore_errors=True)


def tamper_selftest(runs, progs):
    """Vacuity guard: two corrupted copies of a recorded run must be rejected by spec/StmtTrace.tla -- one whose active context is
    not restored after a `with` block, one whose first bound number is replaced by a boolean.  Returns the list of clause names TLC
    reported for them (the caller insists on the two expected ones)."""
    import copy
    picked = None
    for r in runs:
        p = progs[r['pid'] - 1]
        evs = r['ev']
        for j in range(1, len(evs)):
            a = p['lines'].get(evs[j - 1]['l'])
            if a and a['k'] == 'with' and str(a['b0']) == evs[j]['l'] and '__ctx__' in evs[j]['v'] and not r['exc']:
                later = [m for m in range(j + 1, len(evs)) if '__ctx__' in evs[m]['v']]
                if later:
                    picked = (r, j, later[0])
                    break
        if picked:
            break
    if picked is None:
        return None
    r, j, m = picked
    t1 = copy.deepcopy({k: r[k] for k in ('pid', 'ev', 'ret', 'exc', 'mut', 'cx0')})
    del t1['ev'][m]['v']['__ctx__']            # the enclosing context never comes back
    t1['tid'] = 0
    t2 = copy.deepcopy({k: r[k] for k in ('pid', 'ev', 'ret', 'exc', 'mut', 'cx0')})
    t2['tid'] = 1
    done = False
    p = progs[r['pid'] - 1]
    for e_prev, e in zip(t2['ev'], t2['ev'][1:]):
        rec = p['lines'].get(e_prev['l'])
        if rec and rec['k'] == 'assign':
            for d in rec['defs']:
                if d['n'] in e['v'] and d['ty'].get('t') == 'real':
                    e['v'][d['n']] = {'k': 'bool', 'b': True}
                    done = True
                    break
        if done:
            break
    out = validate([t1] + ([t2] if done else []), progs)
    return sorted({m_[1] for m_ in out.mismatches}), done
