"""
Exports real FPy functions (the FuncDef the front end / a transform produced) as the JSON
records spec/FPyMachine.tla interprets.  Blocks are flattened into a per-function table,
calls in expression position are lifted into temporaries as the derived-semantics page
prescribes (evaluation order preserved), and anything the machine does not model yet makes
the program `Unsupported` (counted, never judged).
"""
from __future__ import annotations

from fractions import Fraction

import fpy2 as fp
from fpy2.ast import fpyast as A
from fpy2.function import Function
from fpy2.number import Float, RealFloat
from fpy2.number.context.context import Context
from fpy2.number.round import OverflowMode, RoundingMode
from fpy2.utils import UNINIT, NamedId, UnderscoreId

from .export import OutOfDomain, ctx_json, num_json


class Unsupported(Exception):
    pass


MACHINE_CTORS = {'MPFloatContext', 'MPSFloatContext', 'IEEEContext', 'MPFixedContext', 'FixedContext', 'SMFixedContext'}

CMPOPS = {'LT': 'lt', 'LE': 'le', 'GE': 'ge', 'GT': 'gt', 'EQ': 'eq', 'NE': 'ne'}

SIMPLE_NARY = {
    'Add', 'Sub', 'Mul', 'Div', 'Fma', 'Neg', 'Abs', 'Sqrt', 'Cbrt', 'Copysign', 'Fdim', 'Hypot', 'Mod', 'Fmod',
    'Remainder', 'Pow', 'Ceil', 'Floor', 'Trunc', 'RoundInt', 'NearbyInt', 'Round', 'Cast', 'RoundAt', 'Max', 'Min',
    'Sum', 'IsNan', 'IsInf', 'IsFinite', 'Signbit', 'Not', 'And', 'Or', 'Len', 'Range1', 'Range2', 'Range3', 'Zip',
    'Enumerate', 'AnyOf', 'AllOf', 'Fst', 'Snd', 'ConstNan', 'ConstInf', 'Empty', 'Logb',
}


def value_json(v) -> dict:
    """A Python-side value (argument or result of a call) as a machine value."""
    if isinstance(v, bool):
        return {'k': 'bool', 'b': v}
    if isinstance(v, (Float, RealFloat, int, float, Fraction)):
        return num_json(v)
    if isinstance(v, list):
        return {'k': 'list', 'v': [value_json(x) for x in v]}
    if isinstance(v, tuple):
        return {'k': 'tuple', 'v': [value_json(x) for x in v]}
    if isinstance(v, Context):
        return {'k': 'ctx', 'c': ctx_json(v)}
    if v is UNINIT:
        return {'k': 'uninit'}
    raise Unsupported(f'value {type(v).__name__}')


def target_json(t) -> dict:
    if isinstance(t, UnderscoreId):
        return {'k': 'skip'}
    if isinstance(t, NamedId):
        return {'k': 'name', 'n': str(t)}
    if isinstance(t, A.TupleBinding):
        return {'k': 'tuple', 'ts': [target_json(x) for x in t.elts]}
    raise Unsupported(f'target {type(t).__name__}')


class FuncExporter:
    def __init__(self, prog: 'ProgExporter', fn: Function | A.FuncDef):
        self.prog = prog
        self.ast = fn.ast if isinstance(fn, Function) else fn
        self.env = self.ast.env
        self.blocks: list = []
        self.ids: dict = {}
        self.ntmp = 0
        self._number(self.ast.body)

    # pre-order numbering of the real AST (analysis tables refer to these)
    def _number(self, node):
        if isinstance(node, A.Ast):
            self.ids[id(node)] = len(self.ids)
            for s in _slots(node):
                self._number(getattr(node, s, None))
        elif isinstance(node, (tuple, list)):
            for x in node:
                self._number(x)

    def nid(self, node) -> int:
        return self.ids.get(id(node), -1)

    def fresh(self) -> str:
        self.ntmp += 1
        return f'__lift{self.ntmp}'

    # ---- foreign values
    def static(self, e):
        """Python value of a Var/Attribute chain/ForeignVal that names a foreign object."""
        if isinstance(e, A.ForeignVal):
            return e.val
        if isinstance(e, A.Var):
            name = str(e.name)
            if name in self.env:
                return self.env[name]
            raise KeyError(name)
        if isinstance(e, A.Attribute):
            return getattr(self.static(e.value), e.attr)
        raise KeyError(type(e).__name__)

    def foreign_json(self, v, node):
        if isinstance(v, bool):
            return {'k': 'BoolVal', 'v': v, 'a': [], 'id': self.nid(node)}
        if isinstance(v, (RoundingMode, OverflowMode)):
            return {'k': 'Enum', 'v': v.name, 'a': [], 'id': self.nid(node)}
        if isinstance(v, Context):
            return {'k': 'CtxVal', 'c': ctx_json(v), 'a': [], 'id': self.nid(node)}
        if isinstance(v, (int, float, Fraction, Float)):
            return {'k': 'Num', 'v': num_json(v), 'a': [], 'id': self.nid(node)}
        raise Unsupported(f'foreign value {type(v).__name__}')

    # ---- expressions.  `pre` collects lifted statements (in evaluation order)
    def expr(self, e, pre: list, lift_ok: bool = True) -> dict:
        k = type(e).__name__
        nid = self.nid(e)
        if isinstance(e, A.Var):
            name = str(e.name)
            if name in self.local_names or name not in self.env:
                return {'k': 'Var', 'n': name, 'a': [], 'id': nid}
            v = self.env[name]
            if isinstance(v, (Function, type)) or callable(v):
                raise Unsupported('function value in expression position')
            self.free[name] = v
            return {'k': 'Var', 'n': name, 'a': [], 'id': nid}
        if isinstance(e, A.BoolVal):
            return {'k': 'BoolVal', 'v': bool(e.val), 'a': [], 'id': nid}
        if isinstance(e, A.RationalVal):
            v = num_json(e.as_real())       # as_real keeps the sign of a negative-zero literal
            # a negated zero literal is spelled as Neg(0); plain literals are non-negative or signed rationals
            return {'k': 'Num', 'v': v, 'a': [], 'id': nid}
        if isinstance(e, A.ForeignVal):
            return self.foreign_json(e.val, e)
        if isinstance(e, A.Attribute):
            try:
                return self.foreign_json(self.static(e), e)
            except (KeyError, AttributeError):
                raise Unsupported('attribute of a run-time value')
        if isinstance(e, A.Call):
            return self.call(e, pre, lift_ok)
        if isinstance(e, A.Compare):
            args = self.args_in_order(e.args, pre, lift_ok, short_circuit=True)
            return {'k': 'Compare', 'ops': [CMPOPS[o.name] for o in e.ops], 'a': args, 'id': nid}
        if isinstance(e, A.TupleExpr):
            return {'k': 'TupleExpr', 'a': self.args_in_order(e.elts, pre, lift_ok), 'id': nid}
        if isinstance(e, A.ListExpr):
            return {'k': 'ListExpr', 'a': self.args_in_order(e.elts, pre, lift_ok), 'id': nid}
        if isinstance(e, A.ListComp):
            saved = set(self.local_names)
            its = [self.expr(x, pre, False) for x in e.iterables]
            ts = [target_json(t) for t in e.targets]
            for t in e.targets:
                self._bind_names(t)
            elt = self.expr(e.elt, pre, False)
            self.local_names = saved
            return {'k': 'ListComp', 'ts': ts, 'its': its, 'elt': elt, 'a': [], 'id': nid}
        if isinstance(e, A.ListRef):
            a = self.args_in_order([e.value, e.index], pre, lift_ok)
            return {'k': 'ListRef', 'a': a, 'id': nid}
        if isinstance(e, A.ListSlice):
            parts = [e.value] + ([e.start] if e.start is not None else []) + ([e.stop] if e.stop is not None else [])
            a = self.args_in_order(parts, pre, lift_ok)
            i = 1
            lo, hi = [], []
            if e.start is not None:
                lo = [a[i]]
                i += 1
            if e.stop is not None:
                hi = [a[i]]
            return {'k': 'ListSlice', 'a': [a[0]], 'lo': lo, 'hi': hi, 'id': nid}
        if isinstance(e, A.IfExpr):
            return {'k': 'IfExpr', 'c': self.expr(e.cond, pre, lift_ok), 't': self.expr(e.ift, pre, False),
                    'f': self.expr(e.iff, pre, False), 'a': [], 'id': nid}
        if isinstance(e, A.NaryExpr) and k in SIMPLE_NARY:
            sc = k in ('And', 'Or')
            return {'k': k, 'a': self.args_in_order(e.args, pre, lift_ok, short_circuit=sc), 'id': nid}
        raise Unsupported(k)

    def args_in_order(self, args, pre, lift_ok, short_circuit=False):
        """Exports operands left to right.  When a later operand contains a user call that is
        lifted into `pre`, every earlier operand that could observe the call's writes (anything
        but a literal or a plain variable) is bound to a temporary first."""
        args = list(args)
        last_call = max([i for i, a in enumerate(args) if _has_user_call(a)], default=-1)
        out = []
        for i, a in enumerate(args):
            if short_circuit and i > 0:
                out.append(self.expr(a, pre, False))
                continue
            ex = self.expr(a, pre, lift_ok)
            if i < last_call and ex['k'] not in ('Var', 'Num', 'BoolVal', 'CtxVal', 'Enum') and lift_ok:
                t = self.fresh()
                pre.append({'k': 'Assign', 't': {'k': 'name', 'n': t}, 'e': ex, 'id': -1})
                self.local_names.add(t)
                ex = {'k': 'Var', 'n': t, 'a': [], 'id': -1}
            out.append(ex)
        return out

    def call(self, e: A.Call, pre, lift_ok, top=False):
        fn = e.fn
        nid = self.nid(e)
        if isinstance(fn, type) and issubclass(fn, Context):
            a = [self.expr(x, pre, lift_ok) for x in e.args]
            kwn = [n for n, _ in e.kwargs]
            kwv = [self.expr(v, pre, lift_ok) for _, v in e.kwargs]
            if fn.__name__ in MACHINE_CTORS and set(kwn) <= {'rm', 'overflow', 'enable_neg_zero'}:
                return {'k': 'CtxCall', 'cls': fn.__name__, 'a': a, 'kwn': kwn, 'kwv': kwv, 'id': nid}
            raise Unsupported(f'context constructor {fn.__name__}')
        from fpy2.primitive import Primitive
        if isinstance(fn, Primitive):
            pname = getattr(fn.func, '__name__', '')
            if pname in ('max_p', 'min_n', 'modf', 'split', 'frexp') and not e.kwargs:
                a = [self.expr(x, pre, lift_ok) for x in e.args]
                return {'k': 'Prim', 'fn': pname, 'a': a, 'id': nid}
            raise Unsupported(f'primitive {pname}')
        if isinstance(fn, Function):
            if e.kwargs:
                raise Unsupported('kwargs')
            # a context-free helper whose body is a single `return <expr>` over its parameters, applied to
            # plain variables / literals, is an expression: substitute (no evaluation-order question arises)
            body = fn.ast.body.stmts
            if (not top and len(body) == 1 and isinstance(body[0], A.ReturnStmt) and fn.ast.ctx is None
                    and all(isinstance(x, (A.Var, A.RationalVal, A.BoolVal)) for x in e.args)
                    and not _has_user_call(body[0].expr) and len(e.args) == len(fn.ast.args)):
                sub = FuncExporter(self.prog, fn)
                sub.local_names = {str(a.name) for a in fn.ast.args}
                sub.free = {}
                ex = sub.expr(body[0].expr, [], False)
                if not sub.free:
                    binds = {str(a.name): self.expr(x, pre, lift_ok) for a, x in zip(fn.ast.args, e.args)}
                    return _subst(ex, binds)
            name = self.prog.add_function(fn)
            a = self.args_in_order(e.args, pre, lift_ok)
            node = {'k': 'Call', 'fn': name, 'a': a, 'id': nid}
            if top:
                return node
            if not lift_ok:
                raise Unsupported('call under a conditional / comprehension')
            t = self.fresh()
            pre.append({'k': 'Assign', 't': {'k': 'name', 'n': t}, 'e': node, 'id': -1})
            self.local_names.add(t)
            return {'k': 'Var', 'n': t, 'a': [], 'id': -1}
        raise Unsupported(f'call of {type(fn).__name__}')

    def top_expr(self, e, pre):
        """Right-hand side of Assign / Return / Effect: a user call may stay at the top."""
        if isinstance(e, A.Call) and isinstance(e.fn, Function):
            return self.call(e, pre, True, top=True)
        return self.expr(e, pre, True)

    # ---- statements
    def _bind_names(self, t):
        if isinstance(t, NamedId):
            self.local_names.add(str(t))
        elif isinstance(t, A.TupleBinding):
            for x in t.elts:
                self._bind_names(x)

    def block(self, blk: A.StmtBlock) -> int:
        """Flattens a block; returns its 1-based id."""
        bid = len(self.blocks)
        self.blocks.append(None)
        out = []
        for s in blk.stmts:
            pre: list = []
            st = self.stmt(s, pre)
            out.extend(pre)
            out.append(st)
        self.blocks[bid] = out
        return bid + 1

    def stmt(self, s, pre) -> dict:
        nid = self.nid(s)
        if isinstance(s, A.Assign):
            e = self.top_expr(s.expr, pre)
            self._bind_names(s.target)
            return {'k': 'Assign', 't': target_json(s.target), 'e': e, 'id': nid}
        if isinstance(s, A.IndexedAssign):
            ix = self.args_in_order(list(s.indices) + [s.expr], pre, True)
            return {'k': 'IndexedAssign', 'v': str(s.var), 'ix': ix[:-1], 'e': ix[-1], 'id': nid}
        if isinstance(s, A.If1Stmt):
            c = self.expr(s.cond, pre, True)
            return {'k': 'If1', 'c': c, 't': self.block(s.body), 'id': nid}
        if isinstance(s, A.IfStmt):
            c = self.expr(s.cond, pre, True)
            return {'k': 'If', 'c': c, 't': self.block(s.ift), 'f': self.block(s.iff), 'id': nid}
        if isinstance(s, A.WhileStmt):
            c = self.expr(s.cond, pre, False)
            return {'k': 'While', 'c': c, 'b': self.block(s.body), 'id': nid}
        if isinstance(s, A.ForStmt):
            it = self.expr(s.iterable, pre, True)
            self._bind_names(s.target)
            return {'k': 'For', 't': target_json(s.target), 'it': it, 'b': self.block(s.body), 'id': nid}
        if isinstance(s, A.ContextStmt):
            c = self.expr(s.ctx, pre, False)
            self._bind_names(s.target)
            return {'k': 'With', 't': target_json(s.target), 'c': c, 'b': self.block(s.body), 'id': nid}
        if isinstance(s, A.AssertStmt):
            return {'k': 'Assert', 'c': self.expr(s.test, pre, True), 'id': nid}
        if isinstance(s, A.EffectStmt):
            return {'k': 'Effect', 'e': self.top_expr(s.expr, pre), 'id': nid}
        if isinstance(s, A.ReturnStmt):
            return {'k': 'Return', 'e': self.top_expr(s.expr, pre), 'id': nid}
        if isinstance(s, A.PassStmt):
            return {'k': 'Pass', 'id': nid}
        raise Unsupported(type(s).__name__)

    def export(self) -> dict:
        self.local_names = {str(a.name) for a in self.ast.args if isinstance(a.name, NamedId)}
        self.free: dict = {}
        self.block(self.ast.body)
        free = {}
        for n, v in self.free.items():
            try:
                j = value_json(v)
            except Unsupported:
                raise
            if j['k'] in ('list',):
                raise Unsupported('captured list')
            free[n] = j
        ctx = self.ast.ctx
        return {'params': [str(a.name) for a in self.ast.args], 'ctx': [] if ctx is None else [ctx_json(ctx)],
                'blocks': self.blocks, 'free': free}


def _slots(node):
    seen = []
    for cls in type(node).__mro__:
        for s in getattr(cls, '__slots__', ()):
            if s not in seen and s not in ('loc', 'fn', 'func', 'meta'):
                seen.append(s)
    return seen


def _subst(ex, binds):
    if isinstance(ex, dict):
        if ex.get('k') == 'Var' and ex.get('n') in binds:
            return binds[ex['n']]
        return {k: _subst(v, binds) for k, v in ex.items()}
    if isinstance(ex, list):
        return [_subst(v, binds) for v in ex]
    return ex


def _has_user_call(e) -> bool:
    if isinstance(e, A.Call) and isinstance(e.fn, Function):
        return True
    if isinstance(e, A.Ast):
        return any(_has_user_call(getattr(e, s, None)) for s in _slots(e))
    if isinstance(e, (tuple, list)):
        return any(_has_user_call(x) for x in e)
    return False


class ProgExporter:
    def __init__(self):
        self.funcs: dict = {}
        self.names: dict = {}      # id(FuncDef) -> exported name
        self.exporters: dict = {}

    def add_function(self, fn: Function) -> str:
        key = id(fn.ast)
        if key in self.names:
            return self.names[key]
        name = fn.ast.name
        if name in self.funcs:
            name = f'{name}_{len(self.funcs)}'
        self.names[key] = name
        self.funcs[name] = None            # reserve (recursion)
        ex = FuncExporter(self, fn)
        self.exporters[name] = ex
        self.funcs[name] = ex.export()
        return name


def export_program(fn: Function, pid: int = 0) -> dict:
    """{'pid', 'main', 'funcs'}; raises Unsupported / OutOfDomain."""
    pe = ProgExporter()
    main = pe.add_function(fn)
    return {'pid': pid, 'main': main, 'funcs': pe.funcs, 'inputs': []}, pe
