"""
Enumeration of small rounding contexts (through the real constructors) and of the
breakpoint operands of each context.  Everything here is plain enumeration; the
oracle lives in spec/Rounding.tla.
"""
from __future__ import annotations

import itertools
import random
from fractions import Fraction

import fpy2 as fp
from fpy2.number import Float, RealFloat
from fpy2.number.context.efloat import EFloatContext, EFloatNanKind
from fpy2.number.context.exponential import ExpContext
from fpy2.number.context.fixed import FixedContext
from fpy2.number.context.ieee754 import IEEEContext
from fpy2.number.context.mp_fixed import MPFixedContext
from fpy2.number.context.mp_float import MPFloatContext
from fpy2.number.context.mpb_fixed import MPBFixedContext
from fpy2.number.context.mpb_float import MPBFloatContext
from fpy2.number.context.mps_float import MPSFloatContext
from fpy2.number.context.sm_fixed import SMFixedContext
from fpy2.number.context.real import RealContext

RM, OV = fp.RM, fp.OV
MODES = list(RM)
NANKINDS = list(EFloatNanKind)


def F(q) -> Float:
    q = Fraction(q)
    d = q.denominator
    assert d & (d - 1) == 0
    return Float(s=q < 0, c=abs(q.numerator), exp=-(d.bit_length() - 1))


def try_ctx(fn, *a, **kw):
    try:
        return fn(*a, **kw)
    except (ValueError, TypeError):
        return None


def efloat_formats(maxbits: int, eoffs=(-1, 0, 2)):
    for nbits in range(1, maxbits + 1):
        for es in range(0, nbits):
            for inf in (False, True):
                for nk in NANKINDS:
                    for eo in eoffs:
                        c = try_ctx(EFloatContext, es, nbits, inf, nk, eo)
                        if c is not None:
                            yield (es, nbits, inf, nk, eo)


def contexts(tier: str, rng: random.Random, modes=None, stochastic: bool = False):
    """Yields deterministic contexts of every family (all 8 modes)."""
    modes = modes or MODES
    big = tier == 'thorough'
    out = []

    def add(c):
        if c is not None:
            out.append(c)

    for rm in modes:
        # --- MPFloat
        for p in range(1, 5 if not big else 6):
            add(MPFloatContext(p, rm))
        add(try_ctx(MPFloatContext, 2, rm, enable_nan=False, enable_inf=False))
        add(try_ctx(MPFloatContext, 3, rm, enable_nan=False, enable_inf=False, nan_value=F(3), inf_value=F(-5)))
        add(try_ctx(MPFloatContext, 2, rm, enable_nan=False, enable_inf=True, nan_value=Float(isinf=True)))
        # --- MPSFloat
        for p in range(1, 5 if not big else 6):
            for emin in ((-2, 0, 1) if not big else (-3, -2, -1, 0, 1)):
                add(MPSFloatContext(p, emin, rm))
        add(try_ctx(MPSFloatContext, 2, -1, rm, enable_nan=False, enable_inf=False, nan_value=F(0), inf_value=F(6)))
        # --- MPBFloat
        for p in (1, 2, 3) if not big else (1, 2, 3, 4):
            for emin in (-2, 0):
                for emax in (emin, emin + 2):
                    tops = {(1 << p) - 1, max(1, (1 << p) - 2), 1 << (p - 1)}
                    for c in sorted(tops):
                        mv = RealFloat(c=c, exp=emax - p + 1)
                        for ov in (OV.OVERFLOW, OV.SATURATE, OV.ASSERT):
                            add(try_ctx(MPBFloatContext, p, emin, mv, rm, ov))
                        add(try_ctx(MPBFloatContext, p, emin, mv, rm, OV.OVERFLOW, enable_inf=False))
                        add(try_ctx(MPBFloatContext, p, emin, mv, rm, OV.OVERFLOW, enable_inf=False,
                                    enable_nan=False, inf_value=Float(x=mv), nan_value=F(0)))
                        if c == (1 << p) - 1 and emax == emin + 2:
                            # a finite substitute that is NOT the bound (so the overflow rule is not saturation)
                            add(try_ctx(MPBFloatContext, p, emin, mv, rm, OV.OVERFLOW, enable_inf=False, inf_value=F(1)))
                    mv = RealFloat(c=(1 << p) - 1, exp=emax - p + 1)
                    add(try_ctx(MPBFloatContext, p, emin, mv, rm, OV.SATURATE,
                                neg_maxval=RealFloat(s=True, c=1, exp=emax)))
        # --- EFloat / IEEE
        for (es, nbits, inf, nk, eo) in efloat_formats(4 if not big else 5, (-1, 0, 2) if big else (0, 2)):
            for ov in (OV.OVERFLOW, OV.SATURATE):
                add(try_ctx(EFloatContext, es, nbits, inf, nk, eo, rm, ov))
            if nbits == 4:
                add(try_ctx(EFloatContext, es, nbits, inf, nk, eo, rm, OV.ASSERT))
                add(try_ctx(EFloatContext, es, nbits, inf, nk, eo, rm, OV.OVERFLOW,
                            nan_value=F(1), inf_value=F(1)))
        for (es, nbits) in ((2, 4), (3, 5), (2, 5), (1, 3)) + (((3, 6), (4, 6), (2, 6)) if big else ()):
            add(try_ctx(IEEEContext, es, nbits, rm))
        # --- MPFixed
        for nmin in (-3, -1, 0, 2):
            for nz in (True, False):
                add(MPFixedContext(nmin, rm, enable_neg_zero=nz))
        add(try_ctx(MPFixedContext, -1, rm, enable_nan=True, enable_inf=True))
        add(try_ctx(MPFixedContext, -2, rm, nan_value=F(0), inf_value=F(7)))
        add(try_ctx(MPFixedContext, -2, rm, enable_inf=True, nan_value=Float(isinf=True)))
        add(try_ctx(MPFixedContext, -3, rm, enable_nan=True, inf_value=F(2)))
        add(try_ctx(MPFixedContext, 1, rm, enable_nan=True))
        add(try_ctx(MPFixedContext, 1, rm, enable_inf=True))
        # --- MPBFixed
        for nmin in (-2, -1, 1):
            for (hi, lo) in ((7, None), (5, -2), (4, 0), (6, -6)):
                mv = RealFloat(c=hi, exp=nmin + 1)
                nv = None if lo is None else RealFloat(s=lo < 0, c=abs(lo), exp=nmin + 1)
                for ov in OV:
                    add(try_ctx(MPBFixedContext, nmin, mv, rm, ov, neg_maxval=nv))
                add(try_ctx(MPBFixedContext, nmin, mv, rm, OV.OVERFLOW, neg_maxval=nv, enable_inf=True, enable_nan=True))
                add(try_ctx(MPBFixedContext, nmin, mv, rm, OV.OVERFLOW, neg_maxval=nv, inf_value=F(0), nan_value=F(0)))
                add(try_ctx(MPBFixedContext, nmin, mv, rm, OV.SATURATE, neg_maxval=nv, enable_neg_zero=False))
        # --- Fixed / SMFixed
        for signed in (True, False):
            for scale in (-2, 0, 1):
                for nbits in range(1, 5 if not big else 6):
                    for ov in OV:
                        add(try_ctx(FixedContext, signed, scale, nbits, rm, ov))
                    add(try_ctx(FixedContext, signed, scale, nbits, rm, OV.OVERFLOW, inf_value=F(0), nan_value=F(0)))
        for scale in (-2, 0, 1):
            for nbits in range(2, 5 if not big else 6):
                for ov in OV:
                    add(try_ctx(SMFixedContext, scale, nbits, rm, ov))
                add(try_ctx(SMFixedContext, scale, nbits, rm, OV.OVERFLOW,
                            inf_value=Float(c=1, exp=scale), nan_value=F(0)))
        # --- Exp
        for nbits in (1, 2, 3):
            for eo in (-1, 0, 2):
                for ov in (OV.OVERFLOW, OV.SATURATE):
                    add(try_ctx(ExpContext, nbits, eo, rm, ov))
                add(try_ctx(ExpContext, nbits, eo, rm, OV.OVERFLOW, inf_value=Float(c=1, exp=eo)))
    out.append(fp.REAL)
    return out


def _core(c):
    """(p or None, nmin or None, maxabs or None) from public attributes of the real context
    (only used to place the operand grid -- not an oracle)."""
    p = getattr(c, 'pmax', None)
    nmin = getattr(c, 'nmin', None)
    mx = None
    if hasattr(c, 'pos_maxval'):
        mx = max(abs(c.pos_maxval.as_rational()), abs(c.neg_maxval.as_rational()))
    elif isinstance(c, EFloatContext):
        mx = abs(c.format().largest().as_rational()) if c.has_nonzero() else Fraction(0)
    elif isinstance(c, ExpContext):
        mx = Fraction(2) ** c.emax
        nmin = c.emin - 2
    return p, nmin, mx


def operand_points(c, dense: int = 4) -> list:
    """Breakpoint operands (non-negative Fractions): every `1/dense` of every gap of the
    format around its interesting regions, and points past its largest value."""
    if isinstance(c, RealContext):
        return [Fraction(0), Fraction(1), Fraction(5, 4), Fraction(7, 1), Fraction(3, 8), Fraction(1, 3)]
    p, nmin, mx = _core(c)
    pts = set()
    if p is None:
        # fixed point: multiples of quantum/dense
        q = Fraction(2) ** (nmin + 1)
        top = (mx if mx is not None else 6 * q) + 3 * q
        n = int(top / (q / dense))
        n = min(n, 40 * dense)
        for m in range(0, n + 1):
            pts.add(m * q / dense)
        if mx is not None:
            for m in range(-dense, 3 * dense + 1):
                pts.add(mx + m * q / dense)
            for j in (1, 2, 3, 5):     # several times around a wrapping range
                pts.add(j * (2 * mx + q) + q / dense)
                pts.add(j * (2 * mx + q))
    else:
        if nmin is not None:
            elo = nmin - 1
        else:
            elo = -3
        if mx is not None and mx > 0:
            ehi = mx.numerator.bit_length() - mx.denominator.bit_length() + 2
        elif nmin is not None:
            ehi = nmin + p + 3
        else:
            ehi = 3
        ehi = min(ehi, elo + 14)
        for e in range(elo, ehi + 1):
            qe = e - p + 1
            if nmin is not None:
                qe = max(qe, nmin + 1)
            step = Fraction(2) ** qe / dense
            lo = Fraction(2) ** e
            cnt = int(lo / step)
            for m in range(cnt):
                pts.add(lo + m * step)
        if nmin is not None:
            step = Fraction(2) ** (nmin + 1) / dense
            for m in range(0, 2 * dense + 1):
                pts.add(m * step)
        if mx is not None:
            pts.add(mx * 4)
            pts.add(mx * 64 + 1)
    pts.add(Fraction(0))
    return sorted(pts)


def third_points(pts: list, limit: int = 12) -> list:
    """Non-dyadic rationals strictly inside some gaps (for the Fraction path)."""
    out = []
    step = max(1, len(pts) // limit)
    for i in range(0, len(pts) - 1, step):
        a, b = pts[i], pts[i + 1]
        out.append(a + (b - a) / 3)
        out.append(a + (b - a) * 2 / 3)
    return out


def spellings(q: Fraction):
    """The value q >= 0 or q < 0 as (type-name, python object) in each type that can hold it."""
    s = q < 0
    a = abs(q)
    d = a.denominator
    out = []
    if d & (d - 1) == 0:
        exp = -(d.bit_length() - 1)
        out.append(('Float', Float(s=s, c=a.numerator, exp=exp)))
        out.append(('Float2', Float(s=s, c=a.numerator << 3, exp=exp - 3)))
        out.append(('RealFloat', RealFloat(s=s, c=a.numerator, exp=exp)))
        if a != 0:
            # the same number as a Float that still carries the flags of an earlier, inexact rounding
            import fpy2 as _fp
            stale = _fp.MPFloatContext(max(1, a.numerator.bit_length()), _fp.RM.RTZ).round(q * (1 + Fraction(1, 2 ** 90)))
            if stale.as_rational() == q and stale.inexact:
                out.append(('FloatStaleFlags', stale))
        if d == 1:
            out.append(('int', int(q)))
        fl = float(q)
        if Fraction(fl) == q:
            out.append(('float', fl))
    out.append(('Fraction', q))
    return out
