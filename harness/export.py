"""
Projection of real FPy objects (numbers, contexts) to the JSON records the TLA+
modules read.  Only public attributes are used, never repr().
"""
from __future__ import annotations

from fractions import Fraction

import fpy2 as fp
from fpy2.number import Float, RealFloat
from fpy2.number.context.efloat import EFloatContext, EFloatNanKind
from fpy2.number.context.exponential import ExpContext
from fpy2.number.context.fixed import FixedContext
from fpy2.number.context.ieee754 import IEEEContext
from fpy2.number.context.mp_fixed import MPFixedContext
from fpy2.number.context.mp_float import MPFloatContext
from fpy2.number.context.mpb_fixed import MPBFixedContext
from fpy2.number.context.mpb_float import MPBFloatContext
from fpy2.number.context.mps_float import MPSFloatContext
from fpy2.number.context.real import RealContext
from fpy2.number.context.sm_fixed import SMFixedContext

LIMIT = 1 << 24          # numerators / denominators sent to TLC stay below this


class OutOfDomain(Exception):
    pass


BIG_OK = False        # set by program-level harnesses: wide values travel as opaque tokens


def frac_json(q: Fraction, s: int | None = None) -> dict:
    n, d = abs(q.numerator), q.denominator
    if n >= LIMIT or d >= LIMIT:
        if BIG_OK:
            if s is None:
                s = 1 if q < 0 else 0
            return {'k': 'big', 's': int(s), 'n': str(n), 'd': str(d)}
        raise OutOfDomain(q)
    if s is None:
        s = 1 if q < 0 else 0
    return {'k': 'fin', 's': int(s), 'n': n, 'd': d}


def num_json(x) -> dict:
    """Denotation of a Float / RealFloat / int / float / Fraction / bool-free value."""
    if isinstance(x, Float):
        if x.isnan:
            return {'k': 'nan'}
        if x.isinf:
            return {'k': 'inf', 's': int(bool(x.s))}
        return frac_json(Fraction(x.c) * Fraction(2) ** x.exp, int(bool(x.s)))
    if isinstance(x, RealFloat):
        return frac_json(Fraction(x.c) * Fraction(2) ** x.exp, int(bool(x.s)))
    if isinstance(x, bool):
        raise TypeError('bool is not a number here')
    if isinstance(x, int):
        return frac_json(Fraction(x))
    if isinstance(x, float):
        if x != x:
            return {'k': 'nan'}
        if x in (float('inf'), float('-inf')):
            return {'k': 'inf', 's': int(x < 0)}
        import math
        return frac_json(Fraction(x), int(math.copysign(1.0, x) < 0))
    if isinstance(x, Fraction):
        return frac_json(x)
    raise TypeError(f'not a number: {type(x)}')


def num_of_json(j: dict) -> Float:
    if j['k'] == 'nan':
        return Float(isnan=True)
    if j['k'] == 'inf':
        return Float(isinf=True, s=bool(j['s']))
    q = Fraction(j['n'], j['d'])
    # dyadic only
    d = q.denominator
    assert d & (d - 1) == 0, j
    return Float(s=bool(j['s']), c=q.numerator, exp=-(d.bit_length() - 1))


def _opt(v) -> list:
    return [] if v is None else [num_json(v)]


_NK = {EFloatNanKind.IEEE_754: 'ieee', EFloatNanKind.MAX_VAL: 'maxval',
       EFloatNanKind.NEG_ZERO: 'negzero', EFloatNanKind.NONE: 'none'}


def ctx_json(c) -> dict:
    """Context -> record (family + constructor parameters)."""
    if isinstance(c, RealContext):
        return {'fam': 'real'}
    k = getattr(c, 'num_randbits', 0)
    base = {'rm': c.rm.name, 'k': -1 if k is None else int(k)}
    if isinstance(c, EFloatContext):       # includes IEEEContext
        base.update(fam='efloat', es=c.es, nbits=c.nbits, inf=bool(c.enable_inf), nk=_NK[c.nan_kind],
                    eoff=c.eoffset, ov=c.overflow.name, nanv=_opt(c.nan_value), infv=_opt(c.inf_value))
        return base
    if isinstance(c, FixedContext):
        base.update(fam='fixed', signed=bool(c.signed), scale=c.scale, nbits=c.nbits, ov=c.overflow.name,
                    nanv=_opt(c.nan_value), infv=_opt(c.inf_value))
        return base
    if isinstance(c, SMFixedContext):
        base.update(fam='smfixed', scale=c.scale, nbits=c.nbits, ov=c.overflow.name,
                    nanv=_opt(c.nan_value), infv=_opt(c.inf_value))
        return base
    if isinstance(c, MPBFixedContext):
        base.update(fam='mpbfixed', nmin=c.nmin, negzero=bool(c.enable_neg_zero),
                    maxpos=num_json(c.pos_maxval), maxneg=num_json(c.neg_maxval), ov=c.overflow.name,
                    nan=bool(c.enable_nan), inf=bool(c.enable_inf), nanv=_opt(c.nan_value), infv=_opt(c.inf_value))
        return base
    if isinstance(c, MPFixedContext):
        base.update(fam='mpfixed', nmin=c.nmin, negzero=bool(c.enable_neg_zero),
                    nan=bool(c.enable_nan), inf=bool(c.enable_inf), nanv=_opt(c.nan_value), infv=_opt(c.inf_value))
        return base
    if isinstance(c, MPBFloatContext):
        base.update(fam='mpbfloat', p=c.pmax, emin=c.emin, maxpos=num_json(c.pos_maxval),
                    maxneg=num_json(c.neg_maxval), ov=c.overflow.name,
                    nan=bool(c.enable_nan), inf=bool(c.enable_inf), nanv=_opt(c.nan_value), infv=_opt(c.inf_value))
        return base
    if isinstance(c, MPSFloatContext):
        base.update(fam='mpsfloat', p=c.pmax, emin=c.emin,
                    nan=bool(c.enable_nan), inf=bool(c.enable_inf), nanv=_opt(c.nan_value), infv=_opt(c.inf_value))
        return base
    if isinstance(c, MPFloatContext):
        base.update(fam='mpfloat', p=c.pmax,
                    nan=bool(c.enable_nan), inf=bool(c.enable_inf), nanv=_opt(c.nan_value), infv=_opt(c.inf_value))
        return base
    if isinstance(c, ExpContext):
        return {'fam': 'exp', 'nbits': c.nbits, 'eoff': c.eoffset, 'rm': c.rm.name, 'ov': c.overflow.name,
                'k': 0, 'infv': _opt(c.inf_value)}
    raise TypeError(f'unknown context {type(c)}')


def ctx_of_json(j: dict):
    """Inverse of ctx_json for the deterministic part (used by spec->code replays)."""
    RM, OV = fp.RM, fp.OV
    fam = j['fam']
    if fam == 'real':
        return fp.REAL
    rm = RM[j['rm']]
    k = None if j.get('k', 0) == -1 else j.get('k', 0)
    nv = num_of_json(j['nanv'][0]) if j.get('nanv') else None
    iv = num_of_json(j['infv'][0]) if j.get('infv') else None
    if fam == 'efloat':
        nk = {v: k2 for k2, v in _NK.items()}[j['nk']]
        return EFloatContext(j['es'], j['nbits'], j['inf'], nk, j['eoff'], rm, OV[j['ov']], k,
                             nan_value=nv, inf_value=iv)
    if fam == 'fixed':
        return FixedContext(j['signed'], j['scale'], j['nbits'], rm, OV[j['ov']], k, nan_value=nv, inf_value=iv)
    if fam == 'smfixed':
        return SMFixedContext(j['scale'], j['nbits'], rm, OV[j['ov']], k, nan_value=nv, inf_value=iv)
    if fam == 'mpbfixed':
        return MPBFixedContext(j['nmin'], num_of_json(j['maxpos']).as_real(), rm, OV[j['ov']], k,
                               neg_maxval=num_of_json(j['maxneg']).as_real(), enable_nan=j['nan'],
                               enable_inf=j['inf'], enable_neg_zero=j['negzero'], nan_value=nv, inf_value=iv)
    if fam == 'mpfixed':
        return MPFixedContext(j['nmin'], rm, k, enable_nan=j['nan'], enable_inf=j['inf'],
                              enable_neg_zero=j['negzero'], nan_value=nv, inf_value=iv)
    if fam == 'mpbfloat':
        return MPBFloatContext(j['p'], j['emin'], num_of_json(j['maxpos']).as_real(), rm, OV[j['ov']], k,
                               neg_maxval=num_of_json(j['maxneg']).as_real(), enable_nan=j['nan'],
                               enable_inf=j['inf'], nan_value=nv, inf_value=iv)
    if fam == 'mpsfloat':
        return MPSFloatContext(j['p'], j['emin'], rm, k, enable_nan=j['nan'], enable_inf=j['inf'],
                               nan_value=nv, inf_value=iv)
    if fam == 'mpfloat':
        return MPFloatContext(j['p'], rm, k, enable_nan=j['nan'], enable_inf=j['inf'], nan_value=nv, inf_value=iv)
    if fam == 'exp':
        return ExpContext(j['nbits'], j['eoff'], rm, OV[j['ov']], inf_value=iv)
    raise ValueError(fam)
