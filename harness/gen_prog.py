"""
Program generator: emits FPy programs as *source text* (the real @fpy front end parses them).
Programs are typed by construction (reals, booleans, lists of reals, pairs) and every variable
read is defined on all paths, so the front end accepts them; profiles select the features the
different properties stress.  Programs are written to a module file and imported, because
@fpy reads its source with inspect.
"""
from __future__ import annotations

import importlib.util
import os
import random
import sys
import tempfile

RMS = ['RNE', 'RNA', 'RTP', 'RTN', 'RTZ', 'RAZ']
LITS = ['0', '1', '2', '3', '0.5', '1.25', '0.75', '1.5', '2.5', '0.375', '5', '0.1', '-1', '-0.5']


class Gen:
    def __init__(self, rng: random.Random, profile: dict | None = None):
        self.r = rng
        self.p = {'with': 0.25, 'loops': 0.2, 'lists': 0.25, 'calls': 0.15, 'early_return': 0.12,
                  'nondyadic': 0.1, 'maxdepth': 3, 'stmts': (3, 8)}
        self.p.update(profile or {})
        self.nvar = 0
        self.helpers: list[str] = []
        self.helper_sigs: list[tuple] = []   # (name, kind)

    # ---- names
    def fresh(self, pre='v'):
        self.nvar += 1
        return f'{pre}{self.nvar}'

    # ---- contexts
    def ctx_expr(self, scope) -> str:
        r = self.r
        c = r.random()
        rm = f', fp.RM.{r.choice(RMS)}' if r.random() < 0.5 else ''
        if c < 0.3:
            p = r.choice([1, 2, 2, 3, 4])
            if r.random() < 0.3 and scope['int']:
                v = r.choice(scope['int'])
                return f'fp.MPFloatContext({r.choice([v, v + " + 1"])}{rm})'
            return f'fp.MPFloatContext({p}{rm})'
        if c < 0.55:
            n = r.choice([-3, -2, -1, 0, 1])
            if r.random() < 0.2 and scope['int']:
                return f'fp.MPFixedContext(-{r.choice(scope["int"])}{rm})'
            return f'fp.MPFixedContext({n}{rm})'
        if c < 0.75:
            es, nb = r.choice([(2, 4), (2, 5), (3, 5), (3, 6), (2, 6)])
            return f'fp.IEEEContext({es}, {nb}{rm})'
        if c < 0.85:
            return f'fp.MPSFloatContext({r.choice([2, 3])}, {r.choice([-2, -1, 0])}{rm})'
        if c < 0.93:
            return 'fp.REAL'
        return f'fp.FixedContext(True, {r.choice([-2, -1, 0])}, {r.choice([4, 5, 6])}, fp.RM.{r.choice(RMS)}, fp.OV.SATURATE)'

    # ---- expressions
    def lit(self):
        if self.r.random() < self.p['nondyadic']:
            return self.r.choice(['0.1', '0.3', '1.1'])
        return self.r.choice([l for l in LITS if l not in ('0.1',)])

    def rexpr(self, scope, depth=0) -> str:
        r = self.r
        reals = scope['real']
        if r.random() < self.p.get('consts', 0.0):
            return f'({self.lit()} {r.choice(["+", "*", "-", "/"])} {r.choice(["3", "0.75", "1.5", "7", "0.3"])})'
        c = r.random()
        if depth >= 2 or c < 0.3:
            if reals and r.random() < 0.75:
                return r.choice(reals)
            return self.lit()
        a = self.rexpr(scope, depth + 1)
        b = self.rexpr(scope, depth + 1)
        if self.helper_sigs and r.random() < self.p.get('callexpr', 0.0):
            name, kind = r.choice(self.helper_sigs)
            if kind == 'rr':
                return f'({a} + {name}({b}))'
            if scope['list']:
                xs = r.choice(scope['list'])
                return f'({xs}[0] {r.choice(["+", "*"])} {name}({xs}, {b}))'
        if self.p.get('globals') and r.random() < 0.15:
            return r.choice(['G1', 'G2', '(G1 * G2)'])
        if c < 0.6:
            return f'({a} {r.choice(["+", "-", "*", "+", "*"])} {b})'
        if c < 0.66:
            return f'({a} / {r.choice(["2", "3", "4", "0.5", b])})'
        if c < 0.7:
            return f'(-{a})'
        if c < 0.74:
            return f'abs({a})'
        if c < 0.8:
            return f'{r.choice(["max", "min"])}({a}, {b})'
        if c < 0.83:
            return f'fp.fma({a}, {b}, {self.rexpr(scope, depth + 1)})'
        if c < 0.87 and scope['list']:
            xs = r.choice(scope['list'])
            return r.choice([f'sum({xs})', f'len({xs})', f'{xs}[{r.choice([0, 0, 1, 2])}]'])
        if c < 0.91:
            return f'fp.{r.choice(["round", "floor", "ceil", "trunc"])}({a})'
        if c < 0.96:
            return f'({a} if {self.bexpr(scope, depth + 1)} else {b})'
        return f'fp.sqrt(abs({a}))' if r.random() < 0.3 else f'({a} * {b})'

    def bexpr(self, scope, depth=0) -> str:
        r = self.r
        c = r.random()
        a = self.rexpr(scope, depth + 1)
        b = self.rexpr(scope, depth + 1)
        if depth >= 2 or c < 0.5:
            return f'{a} {r.choice(["<", "<=", ">", ">=", "==", "!="])} {b}'
        if c < 0.6:
            return f'{a} < {b} <= {self.rexpr(scope, depth + 1)}'
        if c < 0.7:
            return f'not ({self.bexpr(scope, depth + 1)})'
        if c < 0.85:
            return f'({self.bexpr(scope, depth + 1)} {r.choice(["and", "or"])} {self.bexpr(scope, depth + 1)})'
        if c < 0.92:
            return f'fp.{r.choice(["isnan", "isinf", "isfinite", "signbit"])}({a})'
        if scope['list']:
            xs = r.choice(scope['list'])
            return f'{r.choice(["any", "all"])}([e_ > {b} for e_ in {xs}])'
        return f'{a} < {b}'

    # ---- statements
    def block(self, scope, depth, n, ind, in_loop=False) -> list[str]:
        out = []
        for _ in range(n):
            out.extend(self.stmt(scope, depth, ind, in_loop))
        return out

    def copy_scope(self, scope):
        return {k: (list(v) if isinstance(v, list) else v) for k, v in scope.items()}

    def stmt(self, scope, depth, ind, in_loop) -> list[str]:
        r, p = self.r, self.p
        pad = '    ' * ind
        c = r.random()
        deep = depth >= p['maxdepth']
        if r.random() < p.get('copies', 0.0) and scope['real']:
            # a plain copy, and sometimes an immediate redefinition of its source
            src = r.choice(scope['real'])
            v = self.fresh()
            out = [f'{pad}{v} = {src}']
            if src not in scope['ro'] and r.random() < 0.6:
                out.append(f'{pad}{src} = {self.rexpr(scope)}')
            scope['real'].append(v)
            return out
        if r.random() < p.get('dead', 0.0):
            k = r.random()
            if k < 0.4:
                return [f'{pad}{self.fresh("d")} = {self.rexpr(scope)}']
            if k < 0.7:
                return [f'{pad}if {r.choice(["False", "1 > 2", "True", "0.5 < 1"])}:',
                        f'{pad}    {self.fresh("d")} = {self.rexpr(scope)}']
            return [f'{pad}assert {r.choice(["True", "1 < 2", self.bexpr(scope)])}']
        if r.random() < p.get('tuples', 0.06):
            ws = [x for x in scope['real'] if x not in scope['ro']]
            if len(ws) >= 2:
                a, b = r.sample(ws, 2)
                return [f'{pad}{a}, {b} = ({self.rexpr(scope, 1)}, {self.rexpr(scope, 1)})']
        # reassign or define a real
        if c < 0.3 or deep:
            if scope['real'] and r.random() < 0.6:
                v = r.choice([x for x in scope['real'] if x not in scope['ro']] or scope['real'])
                if v in scope['ro']:
                    v = self.fresh()
            else:
                v = self.fresh()
            e = self.rexpr(scope)
            if v not in scope['real'] and not scope['cond']:
                scope['real'].append(v)
            elif v not in scope['real']:
                # a name first defined under a branch/loop stays local to it
                scope['real'].append(v)
            return [f'{pad}{v} = {e}']
        if c < 0.3 + p['with']:
            inner = self.copy_scope(scope)
            tgt = ''
            if r.random() < 0.3:
                cn = self.fresh('c')
                tgt = f' as {cn}'
            body = self.block(inner, depth + 1, r.randint(1, 3), ind + 1, in_loop)
            # names defined in the body of a `with` are visible afterwards
            for k in ('real', 'list', 'int'):
                for x in inner[k]:
                    if x not in scope[k]:
                        scope[k].append(x)
            return [f'{pad}with {self.ctx_expr(scope)}{tgt}:'] + body
        c -= 0.3 + p['with']
        if c < 0.15:
            inner = self.copy_scope(scope)
            inner['cond'] = True
            out = [f'{pad}if {self.bexpr(scope)}:'] + self.block(inner, depth + 1, r.randint(1, 2), ind + 1, in_loop)
            if r.random() < p['early_return']:
                out.append(f'{pad}    return {self.ret_expr(inner)}')
            if r.random() < 0.5:
                inner2 = self.copy_scope(scope)
                inner2['cond'] = True
                out += [f'{pad}else:'] + self.block(inner2, depth + 1, r.randint(1, 2), ind + 1, in_loop)
            return out
        c -= 0.15
        if c < p['loops']:
            inner = self.copy_scope(scope)
            inner['cond'] = True
            kind = r.random()
            if kind < 0.35 and scope['list']:
                e = self.fresh('e')
                xs = r.choice(scope['list'])
                inner['real'].append(e)
                inner['ro'].append(e)
                head = f'{pad}for {e} in {xs}:'
            elif kind < 0.55 and scope['list']:
                i, e = self.fresh('i'), self.fresh('e')
                xs = r.choice(scope['list'])
                inner['real'] += [e]
                inner['ro'] += [i, e]
                inner['idx'] = [(i, xs)]
                head = f'{pad}for {i}, {e} in enumerate({xs}):'
            elif kind < 0.7 and len(scope['list']) >= 1:
                a, b = self.fresh('a'), self.fresh('b')
                xs, ys = r.choice(scope['list']), r.choice(scope['list'])
                inner['real'] += [a, b]
                inner['ro'] += [a, b]
                head = f'{pad}for {a}, {b} in zip({xs}, {ys}):'
            elif kind < 0.85:
                i = self.fresh('i')
                inner['ro'].append(i)
                inner['real'].append(i)
                head = f'{pad}for {i} in range({r.choice([0, 1, 2, 3])}):'
            else:
                i = self.fresh('k')
                body = self.block(inner, depth + 1, r.randint(1, 2), ind + 1, True)
                return ([f'{pad}{i} = 0', f'{pad}while {i} < {r.choice([1, 2, 3])}:'] + body
                        + [f'{pad}    with fp.REAL:', f'{pad}        {i} = {i} + 1'])
            body = self.block(inner, depth + 1, r.randint(1, 2), ind + 1, True)
            if inner.get('idx') and r.random() < 0.5:
                i, xs = inner['idx'][0]
                body.append(f'{pad}    {xs}[{i}] = {self.rexpr(inner)}')
            if r.random() < p['early_return'] * 0.5:
                body.append(f'{pad}    if {self.bexpr(inner)}:')
                body.append(f'{pad}        return {self.ret_expr(inner)}')
            return [head] + body
        c -= p['loops']
        if c < p['lists']:
            k = r.random()
            if k < 0.25 and scope['list']:
                v = self.fresh('l')
                xs = r.choice(scope['list'])
                e = self.fresh('e')
                sc = self.copy_scope(scope)
                sc['real'].append(e)
                line = f'{pad}{v} = [{self.rexpr(sc, 1)} for {e} in {xs}]'
            elif k < 0.4 and scope['list']:
                v = self.fresh('l')
                line = f'{pad}{v} = {r.choice(scope["list"])}'          # alias
            elif k < 0.55 and scope['list']:
                v = self.fresh('l')
                lo = r.choice([0, 0, 1])
                line = f'{pad}{v} = {r.choice(scope["list"])}[{lo}:{lo + r.choice([0, 1, 2])}]'
            elif k < 0.75 and scope['list']:
                xs = r.choice(scope['list'])
                return [f'{pad}{xs}[{r.choice([0, 0, 1])}] = {self.rexpr(scope)}']
            elif k < 0.9:
                v = self.fresh('l')
                line = f'{pad}{v} = [{", ".join(self.rexpr(scope, 1) for _ in range(r.randint(1, 3)))}]'
            else:
                a, b = self.fresh(), self.fresh()
                t = self.fresh('t')
                lines = [f'{pad}{t} = ({self.rexpr(scope, 1)}, {self.rexpr(scope, 1)})', f'{pad}{a}, {b} = {t}']
                scope['real'] += [a, b]
                return lines
            scope['list'].append(v)
            return [line]
        c -= p['lists']
        if c < p['calls'] and self.helper_sigs:
            name, kind = r.choice(self.helper_sigs)
            v = self.fresh()
            if kind == 'rr':
                line = f'{pad}{v} = {name}({self.rexpr(scope, 1)})'
            elif kind == 'lr' and scope['list']:
                line = f'{pad}{v} = {name}({r.choice(scope["list"])}, {self.rexpr(scope, 1)})'
            else:
                line = f'{pad}{v} = {self.rexpr(scope)}'
            scope['real'].append(v)
            return [line]
        v = self.fresh()
        scope['real'].append(v)
        return [f'{pad}{v} = {self.rexpr(scope)}']

    def ret_expr(self, scope) -> str:
        r = self.r
        c = r.random()
        if c < 0.65 or not scope['list']:
            return self.rexpr(scope)
        if c < 0.85:
            return f'({self.rexpr(scope, 1)}, {r.choice(scope["list"])})'
        return r.choice(scope['list'])

    def helper(self, name: str, kind: str) -> str:
        r = self.r
        deco = '@fp.fpy'
        if r.random() < 0.5:
            deco = f'@fp.fpy(ctx={self.ctx_expr({"int": []})})'
        if kind == 'rr':
            scope = {'real': ['a'], 'list': [], 'int': [], 'ro': [], 'cond': False}
            body = self.block(scope, 2, r.randint(0, 2), 1)
            return '\n'.join([deco, f'def {name}(a: fp.Real) -> fp.Real:'] + body + [f'    return {self.rexpr(scope)}'])
        scope = {'real': ['a'], 'list': ['zs'], 'int': [], 'ro': [], 'cond': False}
        body = [f'    zs[0] = {self.rexpr(scope)}'] + self.block(scope, 2, r.randint(0, 1), 1)
        return '\n'.join([deco, f'def {name}(zs: list[fp.Real], a: fp.Real) -> fp.Real:'] + body
                         + [f'    return {self.rexpr(scope)}'])

    def program(self, name: str) -> str:
        """Source text of one program `name(x, y, xs)` and its helpers."""
        r = self.r
        self.nvar = 0
        self.helper_sigs = []
        parts = []
        if r.random() < self.p['calls'] * 3:
            for j in range(r.randint(1, 2)):
                kind = r.choice(self.p.get('helper_kinds', ['rr', 'lr']))
                hn = f'{name}_h{j}'
                parts.append(self.helper(hn, kind))
                self.helper_sigs.append((hn, kind))
        if self.p.get('clash'):
            self.nvar = 0           # the caller reuses the helpers' local names
        scope = {'real': ['x', 'y', 'k'], 'list': ['xs'], 'int': ['k'], 'ro': ['k'], 'cond': False}
        deco = '@fp.fpy'
        if r.random() < 0.15:
            deco = f'@fp.fpy(ctx={self.ctx_expr({"int": []})})'
        body = []
        if r.random() < 0.3:
            body.append(f'    n0 = {r.choice([1, 2, 3])}')
            scope['int'].append('n0')
            scope['real'].append('n0')
        lo, hi = self.p['stmts']
        body += self.block(scope, 0, r.randint(lo, hi), 1)
        body.append(f'    return {self.ret_expr(scope)}')
        parts.append('\n'.join([deco, f'def {name}(x: fp.Real, y: fp.Real, xs: list[fp.Real], k: fp.Real):'] + body))
        return '\n\n'.join(parts)


HEADER = 'import fpy2 as fp\n\nG1 = 1.25\nG2 = 3\nNZ = -0.0\nPZ = 0.0\nONE = 1\nYES = True\nt = 100.0\nK = 100.0\n\n'


def load_module(source: str, workdir: str, modname: str):
    path = os.path.join(workdir, modname + '.py')
    with open(path, 'w') as f:
        f.write(source)
    spec = importlib.util.spec_from_file_location(modname, path)
    mod = importlib.util.module_from_spec(spec)
    sys.modules[modname] = mod
    spec.loader.exec_module(mod)
    return mod


def load_programs(sources: dict, workdir: str, modname: str):
    """sources: name -> text.  Programs the front end rejects are dropped one by one.
    Returns (module-like dict name -> Function, rejected: name -> error)."""
    funcs, rejected = {}, {}
    for i, (name, text) in enumerate(sources.items()):
        try:
            mod = load_module(HEADER + text + '\n', workdir, f'{modname}_{i}')
            funcs[name] = getattr(mod, name)
        except Exception as e:      # noqa: BLE001
            rejected[name] = f'{type(e).__name__}: {str(e)[:200]}'
    return funcs, rejected
