"""
Harness core: paths, TLC runner (single runs and sharded trace validation), evidence
writer, known-findings matching and the outcome discipline shared by all checks.

Exit codes of ./check: 0 property held on everything explored (known findings are
printed, not alarms); 1 a violation not listed in known_findings.json; 2 machinery
failure (TLC error, overflow, unconsumed trace, import error).
"""
from __future__ import annotations

import concurrent.futures as cf
import hashlib
import json
import os
import re
import shutil
import subprocess
import sys
import tempfile
import time
from dataclasses import dataclass, field
from pathlib import Path

VERIF = Path(__file__).resolve().parent.parent
SPEC = VERIF / 'spec'
EVIDENCE = VERIF / 'evidence'
REPLAY = VERIF / 'replay'
REPO = Path(os.environ.get('VERIF_REPO', '/repo'))
TLA_JAR = '/opt/veriftools/tla/tla2tools.jar:/opt/veriftools/tla/CommunityModules-deps.jar'
# measured in this sandbox: 16 vCPUs give about 2.5 cores of throughput; more jobs only add contention
NCPU = int(os.environ.get('VERIF_JOBS', '4'))


class MachineryError(Exception):
    pass


def seed() -> int:
    try:
        return int(os.environ.get('VERIF_SEED', '0'))
    except ValueError:
        return 0


# ---------------------------------------------------------------------------
# TLC

@dataclass
class TLCResult:
    ok: bool
    generated: int = 0
    distinct: int = 0
    prints: list = field(default_factory=list)   # parsed <<...>> PrintT tuples (as raw strings)
    output: str = ''
    error: str = ''
    coverage: dict = field(default_factory=dict)
    wall: float = 0.0


_GEN = re.compile(r'(\d+) states generated, (\d+) distinct states found')


def run_tlc(module: str, cfg: str | None = None, env: dict | None = None, workers: int = 1,
            timeout: int = 1800, extra: list | None = None, heap: str = '3g',
            deque: bool = False) -> TLCResult:
    """Runs TLC on spec/<module>.tla with spec/<cfg or module>.cfg."""
    meta = tempfile.mkdtemp(prefix='tlcmeta-')
    cfgp = SPEC / ((cfg or module) + ('' if (cfg or module).endswith('.cfg') else '.cfg'))
    cmd = (['java', '-XX:+UseParallelGC', f'-Xmx{heap}'] if workers > 1 else
           ['java', '-XX:+UseSerialGC', '-XX:TieredStopAtLevel=4', '-XX:CICompilerCount=2', f'-Xmx{heap}'])
    if deque:
        cmd.append('-Dtlc2.tool.queue.IStateQueue=StateDeque')
    cmd += ['-cp', TLA_JAR, 'tlc2.TLC', '-workers', str(workers), '-metadir', meta,
            '-noGenerateSpecTE', '-config', str(cfgp)]
    cmd += list(extra or [])
    cmd.append(str(SPEC / (module + '.tla')))
    e = dict(os.environ)
    e.update({k: str(v) for k, v in (env or {}).items()})
    t0 = time.time()
    try:
        p = subprocess.run(cmd, cwd=str(SPEC), env=e, capture_output=True, text=True, timeout=timeout)
        out = p.stdout + p.stderr
        rc = p.returncode
    except subprocess.TimeoutExpired as ex:
        out = (ex.stdout or b'').decode() if isinstance(ex.stdout, bytes) else (ex.stdout or '')
        out += '\nTIMEOUT'
        rc = -9
    finally:
        shutil.rmtree(meta, ignore_errors=True)
    res = TLCResult(ok=False, output=out, wall=time.time() - t0)
    for m in _GEN.finditer(out):
        res.generated, res.distinct = int(m.group(1)), int(m.group(2))
    res.prints = [ln for ln in out.splitlines() if ln.startswith('<<') or ln.startswith('"')]
    bad = ('Error:' in out) or ('TIMEOUT' in out) or rc not in (0,)
    if bad:
        # keep the first error paragraph
        idx = out.find('Error:')
        res.error = out[idx: idx + 1500] if idx >= 0 else out[-1500:]
    res.ok = not bad and 'Model checking completed' in out or (not bad and 'Finished in' in out)
    if not res.ok and not res.error:
        res.error = out[-1500:]
    # coverage lines:  <Action line ... of module M>: distinct:generated
    for m in re.finditer(r'^<(\w+) line (\d+), col \d+ to line \d+, col \d+ of module (\w+)>: (\d+):(\d+)', out, re.M):
        res.coverage[f'{m.group(3)}!{m.group(1)}'] = res.coverage.get(f'{m.group(3)}!{m.group(1)}', 0) + int(m.group(5))
    return res


def parse_tuple(line: str):
    """Parses a one-line TLC tuple print  <<"MM", 12, "value">>  into a python list."""
    s = line.strip()
    if not (s.startswith('<<') and s.endswith('>>')):
        return None
    body = s[2:-2]
    out, cur, depth, instr = [], '', 0, False
    for ch in body:
        if instr:
            cur += ch
            if ch == '"':
                instr = False
            continue
        if ch == '"':
            instr = True
            cur += ch
        elif ch in '<[({':
            depth += 1
            cur += ch
        elif ch in '>])}':
            depth -= 1
            cur += ch
        elif ch == ',' and depth == 0:
            out.append(cur.strip())
            cur = ''
        else:
            cur += ch
    if cur.strip():
        out.append(cur.strip())
    res = []
    for tok in out:
        if tok.startswith('"') and tok.endswith('"'):
            res.append(tok[1:-1])
        elif re.fullmatch(r'-?\d+', tok):
            res.append(int(tok))
        elif tok in ('TRUE', 'FALSE'):
            res.append(tok == 'TRUE')
        else:
            res.append(tok)
    return res


@dataclass
class ShardOutcome:
    records: int = 0
    mismatches: list = field(default_factory=list)   # (tid, clause, *rest)
    generated: int = 0
    distinct: int = 0
    wall: float = 0.0
    extra_prints: list = field(default_factory=list)


def validate_trace(module: str, records: list, nshards: int | None = None, cfg: str | None = None,
                   timeout: int = 3000, env: dict | None = None, tag: str = 'MM') -> ShardOutcome:
    """Mode V: writes `records` (dicts with a unique 'tid') as ndjson shards and has
    TLC evaluate every record with spec/<module>.tla.  Returns the mismatches TLC
    printed.  Raises MachineryError when a shard did not consume all its records."""
    if not records:
        raise MachineryError('no records to validate')
    nshards = nshards or min(NCPU, max(1, len(records) // 2000))
    nshards = max(1, min(nshards, len(records)))
    work = tempfile.mkdtemp(prefix='verif-trace-')
    t0 = time.time()
    try:
        shards = [records[i::nshards] for i in range(nshards)]
        files = []
        for i, sh in enumerate(shards):
            fp = os.path.join(work, f'shard{i}.ndjson')
            with open(fp, 'w') as f:
                for r in sh:
                    f.write(json.dumps(r, separators=(',', ':')))
                    f.write('\n')
            files.append(fp)

        def one(i):
            e = dict(env or {})
            e['TRACE_FILE'] = files[i]
            return run_tlc(module, cfg, env=e, workers=1, timeout=timeout)

        out = ShardOutcome(records=len(records))
        with cf.ThreadPoolExecutor(max_workers=NCPU) as ex:
            results = list(ex.map(one, range(nshards)))
        for i, r in enumerate(results):
            if not r.ok:
                raise MachineryError(f'TLC failed on shard {i} of {module}: {r.error[:1200]}')
            done = None
            for ln in r.prints:
                t = parse_tuple(ln)
                if not t:
                    continue
                if t[0] == tag:
                    out.mismatches.append(tuple(t[1:]))
                elif t[0] == 'DONE':
                    done = t
                else:
                    out.extra_prints.append(t)
            if done is None or done[1] != len(shards[i]):
                raise MachineryError(f'shard {i} of {module}: trace not fully consumed ({done})')
            out.generated += r.generated
            out.distinct += r.distinct
        out.wall = time.time() - t0
        return out
    finally:
        shutil.rmtree(work, ignore_errors=True)


# ---------------------------------------------------------------------------
# findings / outcome

def load_findings() -> list:
    p = VERIF / 'known_findings.json'
    if not p.exists():
        return []
    return json.loads(p.read_text())


def match_finding(prop: str, key: dict, findings: list | None = None):
    """Returns the 'known' finding whose key is a sub-dict of `key`, or None.
    'fixed' entries never match (they suppress nothing)."""
    for f in (findings if findings is not None else load_findings()):
        if f.get('property') != prop or f.get('status') != 'known':
            continue
        k = f.get('key', {})
        if all(key.get(a) == b for a, b in k.items()):
            return f
    return None


class Report:
    """Collects violations / known findings / evidence for one check run."""

    def __init__(self, prop: str, tier: str, level: str = 'model_checking'):
        self.prop = prop
        self.tier = tier
        self.level = level
        self.t0 = time.time()
        self.findings = load_findings()
        self.violations: list = []       # (key, detail)
        self.known: dict = {}            # finding 'what' -> count
        self.cov: dict = {'states': 0, 'transitions': 0, 'traces_validated_against_impl': 0,
                          'evaluations': 0, 'distinct_nontrivial': 0, 'samples': []}
        self.assumptions: list = []

    def add_tlc(self, generated: int, distinct: int):
        self.cov['states'] += int(distinct)
        self.cov['transitions'] += int(generated)

    def sample(self, s, limit: int = 6):
        if len(self.cov['samples']) < limit:
            self.cov['samples'].append(s)

    def mismatch(self, key: dict, detail: dict):
        f = match_finding(self.prop, key, self.findings)
        if f is not None:
            w = f.get('what', json.dumps(f.get('key')))
            self.known[w] = self.known.get(w, 0) + 1
        else:
            self.violations.append((key, detail))

    def finish(self) -> int:
        wall = time.time() - self.t0
        EVIDENCE.mkdir(exist_ok=True)
        for w, n in sorted(self.known.items()):
            print(f'KNOWN-FINDING: property={self.prop} {w} (x{n})')
        rc = 0
        replay_paths = []
        if self.violations:
            REPLAY.mkdir(exist_ok=True)
            # group by key, save at most 5 replay files
            seen = {}
            for key, detail in self.violations:
                ks = json.dumps(key, sort_keys=True)
                seen.setdefault(ks, []).append(detail)
            for ks, details in list(seen.items())[:5]:
                h = hashlib.sha1((ks + json.dumps(details[0], sort_keys=True, default=str)).encode()).hexdigest()[:10]
                path = REPLAY / f'{self.prop}-{h}.json'
                path.write_text(json.dumps({'property': self.prop, 'key': json.loads(ks),
                                            'count': len(details), 'cases': details[:20]}, indent=1, default=str))
                replay_paths.append(str(path))
                print(f'VIOLATION property={self.prop} replay={path}')
                print(f'  key={ks} count={len(details)} first={json.dumps(details[0], default=str)[:600]}')
            rc = 1
        cov = dict(self.cov)
        if not cov['samples']:
            cov['samples'] = ['(none recorded)']
        cov['known_findings_reproduced'] = dict(self.known)
        ev = {'property_id': self.prop, 'tier': self.tier, 'seed': seed(), 'level': self.level,
              'coverage': cov, 'assumptions': self.assumptions, 'wall_s': round(wall, 2),
              'violations': len(self.violations)}
        (EVIDENCE / f'{self.prop}.json').write_text(json.dumps(ev, indent=1, default=str))
        print(f'{self.prop} {self.tier}: evaluations={cov.get("evaluations")} states={cov.get("states")} '
              f'traces={cov.get("traces_validated_against_impl")} violations={len(self.violations)} '
              f'known={sum(self.known.values())} wall={wall:.1f}s')
        return rc


def pool_map(fn, items, workers: int | None = None, chunksize: int = 1):
    """Process-pool map (fork) used to run the real code in parallel.  A worker that dies (the real code can abort the
    process, e.g. GNU MP on an absurd precision) must not hang the check: it is a machinery failure with a message."""
    import concurrent.futures as cf
    import multiprocessing as mp
    from concurrent.futures.process import BrokenProcessPool
    items = list(items)
    try:
        with cf.ProcessPoolExecutor(max_workers=workers or NCPU, mp_context=mp.get_context('fork')) as ex:
            return list(ex.map(fn, items, chunksize=chunksize))
    except BrokenProcessPool as e:
        raise MachineryError(f'a worker process died while running the real code ({e}); see stderr above for the cause') from e


def replay_saved(prop: str, trace_module: str, path: str, rerun=None) -> int:
    """--replay: re-judges the cases saved in a replay file with the trace specification; when
    `rerun` is given, each case is first re-executed against the current tree (rerun(case) -> case)."""
    data = json.loads(Path(path).read_text())
    cases = data.get('cases', [])
    recs = []
    for i, c in enumerate(cases):
        c = dict(c)
        if rerun is not None:
            try:
                c = rerun(c)
            except Exception as e:      # noqa: BLE001
                print(f'case {i}: cannot re-run ({type(e).__name__}: {e}); judging the saved record')
        c['tid'] = i
        recs.append(c)
    if not recs:
        print('no cases in replay file')
        return 2
    out = validate_trace(trace_module, recs, nshards=1)
    bad = {mm[0]: mm[1] for mm in out.mismatches}
    for i, c in enumerate(recs):
        print(f'case {i}: {"REJECTED clause=" + str(bad[i]) if i in bad else "accepted"} :: {json.dumps(c, default=str)[:400]}')
    if bad:
        print(f'VIOLATION property={prop} replay={path}')
        return 1
    return 0
