"""
Shared machinery for the program-level properties: generate / load programs, run the real
interpreter on input vectors, export, and have TLC run the abstract machine (MCMachine) on
every (program, input) and judge the recorded outcome.
"""
from __future__ import annotations

import itertools
import json
import os
import random
import shutil
import signal
import tempfile
from fractions import Fraction

import fpy2 as fp

from . import core, gen_prog
from . import export as _export
from .export import OutOfDomain, ctx_json

_export.BIG_OK = True
from .export_prog import Unsupported, export_program, value_json

# The real code hands any precision to MPFR, and GNU MP ABORTS THE PROCESS when it cannot allocate (MPFloatContext(2 ** 53 + 1) asks for
# a petabyte).  A harness that runs thousands of generated programs in its own process must survive that: precisions the sandbox cannot
# serve become a Python MemoryError, which is then the (recorded) outcome of that run.
def _guard_mpfr():
    import fpy2.number.gmputils as G
    if getattr(G, '_verif_guarded', False):
        return
    orig = G._mpfr_call_with_prec

    def guarded(prec, fn, args):
        if prec > 4_000_000:
            raise MemoryError(f'MPFR precision {prec} is beyond what this harness lets the process try')
        return orig(prec, fn, args)
    G._mpfr_call_with_prec = guarded
    G._verif_guarded = True


_guard_mpfr()

SCALARS = [0.0, -0.0, 1.0, 1.5, -1.25, 7.0, 0.375, float('inf'), float('nan'), Fraction(1, 3), 3, 2 ** 53 + 1]
LISTS = [[], [1.0], [0.5, 2.0], [1.5, -0.75, 3.0], [float('nan'), 1.0], [2.0, 2.0, 2.0, 0.25]]


def caller_contexts():
    return [None, fp.REAL, fp.MPFloatContext(3), fp.MPFixedContext(-1), fp.IEEEContext(3, 6, fp.RM.RTZ)]


class Timeout(BaseException):
    pass


def _alarm(signum, frame):
    raise Timeout()


def run_real(fn, args, ctx, limit: int = 5):
    """Outcome of the real interpreter: {'val': value} or {'err': class}.  A run that exceeds the limit is repeated once with six times
    the limit before it counts as not terminating: on a loaded machine a slow run is not a hang, and one flaky alarm discredits every real one."""
    out = _run_real_once(fn, args, ctx, limit)
    if out.get('err') == 'Timeout':
        out = _run_real_once(fn, args, ctx, limit * 6)
    return out


def _run_real_once(fn, args, ctx, limit: int):
    import copy
    a = copy.deepcopy(args)
    signal.signal(signal.SIGALRM, _alarm)
    signal.setitimer(signal.ITIMER_REAL, limit, 1.0)      # keeps firing if the first one is swallowed
    try:
        r = fn(*a) if ctx is None else fn(*a, ctx=ctx)
        out = {'val': value_json(r)}
    except Timeout:
        out = {'err': 'Timeout'}
    except OutOfDomain:
        out = {'ood': True}
    except Unsupported:
        out = {'ood': True}
    except RecursionError:
        out = {'err': 'RecursionError'}
    except Exception as e:      # noqa: BLE001
        out = {'err': type(e).__name__}
    finally:
        signal.setitimer(signal.ITIMER_REAL, 0)
    return out


def input_vectors(rng: random.Random, n: int, arity_lists: int = 1, nscal: int = 2):
    """n (args, ctx) vectors: scalars from SCALARS, lists from LISTS, caller contexts cycled."""
    ctxs = caller_contexts()
    out = []
    for i in range(n):
        sc = [rng.choice(SCALARS) for _ in range(nscal)]
        ls = [list(rng.choice(LISTS)) for _ in range(arity_lists)]
        if rng.random() < 0.15 and ls and ls[0]:
            ls[0][0] = 2 ** 53 + 1
        out.append((sc + ls + [rng.choice([1, 2, 3, 2, 4])], ctxs[i % len(ctxs)]))
    return out


def record_program(fn, pid: int, vectors, source: str = ''):
    """Exports fn and records the real outcome for each vector.  Returns prog dict or
    ('unsupported'|'ood', reason)."""
    try:
        prog, _ = export_program(fn, pid)
    except Unsupported as e:
        return ('unsupported', str(e))
    except OutOfDomain as e:
        return ('ood', str(e))
    ins = []
    for args, ctx in vectors:
        try:
            aj = [value_json(a) for a in args]
        except (OutOfDomain, Unsupported):
            continue
        out = run_real(fn, args, ctx)
        if 'ood' in out:
            continue
        ins.append({'args': aj, 'ctx': [] if ctx is None else [ctx_json(ctx)], 'out': out})
    prog['inputs'] = ins
    prog['src'] = source
    return prog


def run_machine(progs: list, cfg: str = 'MCMachine', module: str = 'MCMachine', nshards: int | None = None,
                timeout: int = 3000, env: dict | None = None):
    """Runs TLC on the exported programs (sharded).  Returns (mismatches, skips, generated, distinct):
    mismatches / skips are lists of (pid, input-index (1-based), clause, machine-error)."""
    progs = [p for p in progs if p['inputs']]
    if not progs:
        return [], [], 0, 0
    nshards = nshards or min(core.NCPU, max(1, len(progs) // 8))
    work = tempfile.mkdtemp(prefix='verif-prog-')
    try:
        files = []
        for i in range(nshards):
            fp_ = os.path.join(work, f'progs{i}.ndjson')
            with open(fp_, 'w') as f:
                for p in progs[i::nshards]:
                    q = {k: v for k, v in p.items() if k != 'src'}
                    f.write(json.dumps(q, separators=(',', ':')) + '\n')
            files.append(fp_)
        import concurrent.futures as cf

        def one(i):
            e = dict(env or {})
            e['PROG_FILE'] = files[i]
            return core.run_tlc(module, cfg, env=e, workers=1, timeout=timeout)
        with cf.ThreadPoolExecutor(max_workers=core.NCPU) as ex:
            results = list(ex.map(one, range(nshards)))
        mm, skips, gen, dis = [], [], 0, 0
        for i, r in enumerate(results):
            if not r.ok:
                raise core.MachineryError(f'TLC failed on program shard {i}: {r.error[:1500]}')
            gen += r.generated
            dis += r.distinct
            for ln in r.prints:
                t = core.parse_tuple(ln)
                if not t:
                    continue
                if t[0] == 'MM':
                    mm.append(tuple(t[1:]))
                elif t[0] == 'SKIP':
                    skips.append(tuple(t[1:]))
        return mm, skips, gen, dis
    finally:
        shutil.rmtree(work, ignore_errors=True)


def generate_and_load(seed: int, n: int, profile: dict | None, workdir: str, tag: str):
    rng = random.Random(seed)
    g = gen_prog.Gen(rng, profile)
    sources = {}
    for i in range(n):
        name = f'{tag}{i}'
        sources[name] = g.program(name)
    funcs, rejected = gen_prog.load_programs(sources, workdir, f'vprog_{tag}_{seed}')
    return sources, funcs, rejected


def has_big(j) -> bool:
    if isinstance(j, dict):
        return j.get('k') == 'big' or any(has_big(v) for v in j.values())
    if isinstance(j, list):
        return any(has_big(v) for v in j)
    return False


def rtn_involved(prog, inp) -> bool:
    return 'RTN' in json.dumps(prog.get('funcs', {})) or 'RTN' in json.dumps(inp.get('ctx', []))


def split_big(progs_by_pid, mm, skips):
    """A run whose inputs contain a wide (opaque) number and in which the machine stopped with a
    type/value error only says that the machine cannot compute on the token: it is a skip."""
    keep = []
    for m in mm:
        pid, idx, clause, merr = m
        p = progs_by_pid[pid]
        if clause == 'missing-error' and merr in ('TypeError', 'ValueError') and has_big(p['inputs'][idx - 1]['args']):
            skips.append((pid, idx, 'skip', 'WideValue'))
        elif clause.endswith('zero-sign') and rtn_involved(p, p['inputs'][idx - 1]):
            skips.append((pid, idx, 'skip', 'RTNZeroSign'))     # the property leaves this sign open
        else:
            keep.append(m)
    return keep, skips
