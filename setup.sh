#!/bin/sh
# Offline setup: nothing is compiled ahead of time.  Verify the tools resolve and that
# every TLA+ module parses.
set -e
cd "$(dirname "$0")"
command -v java >/dev/null
test -f /opt/veriftools/tla/tla2tools.jar
/venv/bin/python -c "import sys; sys.path.insert(0, '/repo'); import fpy2, gmpy2"
mkdir -p evidence replay
cd spec
for f in *.tla; do
  java -cp /opt/veriftools/tla/tla2tools.jar:/opt/veriftools/tla/CommunityModules-deps.jar tla2sany.SANY "$f" >/tmp/sany.$$ 2>&1 || { cat /tmp/sany.$$; rm -f /tmp/sany.$$; exit 1; }
  if grep -q "Semantic errors\|Parse Error\|Fatal errors" /tmp/sany.$$; then cat /tmp/sany.$$; rm -f /tmp/sany.$$; exit 1; fi
done
rm -f /tmp/sany.$$
echo setup ok
