------------------------------ MODULE FPyMachine ------------------------------
(***************************************************************************)
(* The FPy abstract machine: a small-step reference semantics of FPy       *)
(* programs, written from docs/source/dev/semantics.rst and                *)
(* derived-semantics.rst.  It runs the REAL ASTs: harness/export_prog.py   *)
(* turns a FuncDef into records (k = AST class name) whose blocks are      *)
(* flattened into a table, and this module interprets them.                *)
(*                                                                         *)
(* Values:  numbers (Num records), [k|->"bool", b], [k|->"tup", v: Seq],   *)
(*          [k|->"ref", loc] (a list: store[loc] is its element sequence,  *)
(*          so sharing is identity of loc), [k|->"ctx", c: context].       *)
(* State :  frames (call stack; each frame has an environment and a        *)
(*          continuation stack of block cursors), store, the active        *)
(*          context ctx, status, result.                                   *)
(* One action per statement rule; expressions are evaluated by the         *)
(* recursive operator Eval (they are pure except for list allocation).     *)
(* A call is a statement-level action (CallEnter/Return): the exporter     *)
(* lifts calls out of expression position as the derived semantics says.   *)
(***************************************************************************)
EXTENDS NumberOps, Json, IOUtils

\* the exported programs, one per line of PROG_FILE (a constant-level definition: TLC reads the file once)
Progs == ndJsonDeserialize(IOEnv.PROG_FILE)

B(b)     == [k |-> "bool", b |-> b]
Tup(s)   == [k |-> "tup", v |-> s]
Ref(l)   == [k |-> "ref", loc |-> l]
CtxV(c)  == [k |-> "ctx", c |-> c]
IsNum(v) == v.k \in {"fin", "inf", "nan"}
RealCtx  == [fam |-> "real"]

Ok(v, st)  == [v |-> v, st |-> st, err |-> ""]
Er(e, st)  == [v |-> NaN, st |-> st, err |-> e]

\* --- domain guard: keep every intermediate inside TLC's 32-bit integers
Small(x) == x.k # "fin" \/ (x.n < 32768 /\ x.d < 32768)
\* a format so wide that every value the machine holds (numerator and denominator below 2^15) is a member: binary64, binary32 ...
BigCtx(c) ==
    CASE c.fam = "real" -> FALSE
      [] c.fam = "efloat" -> c.nbits - c.es >= 15 /\ c.es >= 6
      [] c.fam \in {"mpfloat", "mpsfloat", "mpbfloat"} -> c.p >= 15 /\ (c.fam = "mpfloat" \/ c.emin < -30)
      [] c.fam \in {"mpfixed", "mpbfixed"} -> c.nmin < -16
      [] c.fam \in {"fixed", "smfixed"} -> c.scale < -16 /\ c.nbits + c.scale > 16
      [] c.fam = "exp" -> FALSE
\* a format that is neither wide in that sense nor small enough for Rounding!RoundVal within TLC's integers: such runs are skipped
Unmodelled(c) ==
    ~BigCtx(c) /\
    CASE c.fam = "real" -> FALSE
      [] c.fam = "efloat" -> c.nbits - c.es > 12 \/ c.es > 4
      [] c.fam \in {"mpfloat", "mpsfloat", "mpbfloat"} -> c.p > 12 \/ (c.fam # "mpfloat" /\ c.emin < -12)
      [] c.fam \in {"mpfixed", "mpbfixed"} -> c.nmin < -12 \/ c.nmin > 12
      [] c.fam \in {"fixed", "smfixed"} -> c.nbits > 12 \/ c.scale < -12 \/ c.scale > 12
      [] c.fam = "exp" -> c.nbits > 4
\* rounding a number under the active context: [v] or [err]
MRound(c, x, st) ==
    IF ~Small(x) THEN Er("OutOfDomain", st)          \* every value the machine holds stays small
    ELSE IF c.fam = "real" THEN Ok(x, st)
    ELSE IF Unmodelled(c) THEN Er("OutOfDomain", st)
    ELSE IF BigCtx(c) THEN
        \* a wide format (binary64 ...): every small dyadic value is a member
        (IF x.k # "fin" \/ IsDyadic(x) THEN Ok(x, st) ELSE Er("OutOfDomain", st))
    ELSE IF c.k # 0 THEN Er("OutOfDomain", st)         \* stochastic contexts are not run here
    ELSE LET r == RoundVal(c, x) IN IF "err" \in DOMAIN r THEN Er(r.err, st) ELSE Ok(r.val, st)

GridFor(c) ==
    IF c.fam \in {"real", "exp"} \/ BigCtx(c) THEN 4
    ELSE LET f == Core(c) IN
         IF f.hasN THEN Max(2, Min(7, -(f.nmin + 1) + 3)) ELSE Min(7, f.p + 5)

OpName == [Add |-> "add", Sub |-> "sub", Mul |-> "mul", Div |-> "div", Fma |-> "fma", Neg |-> "neg",
           Abs |-> "fabs", Sqrt |-> "sqrt", Cbrt |-> "cbrt", Copysign |-> "copysign", Fdim |-> "fdim",
           Hypot |-> "hypot", Mod |-> "mod", Fmod |-> "fmod", Remainder |-> "remainder", Pow |-> "pow",
           Ceil |-> "ceil", Floor |-> "floor", Trunc |-> "trunc", RoundInt |-> "roundint"]
RoundedOps == DOMAIN OpName

\* the one exact result the code produces where the property leaves a zero's sign open
ExactOne(op, a, rm, g) ==
    LET S == Exact(op, a, rm, g)
    IN  IF Cardinality(S) = 1 THEN CHOOSE c \in S : TRUE
        ELSE IF op = "mod" THEN CHOOSE c \in S : c.v.s = a[2].s
        ELSE CHOOSE c \in S : c.v.s = 0            \* exact cancellation under RTN: the property leaves the sign open; the code returns +0 on every path observed

IntOf(v) == SN(v)                                   \* v integral
IsIntV(v) == v.k = "fin" /\ v.d = 1

-----------------------------------------------------------------------------
(* Pattern matching (M-Var / M-Tuple): binds into env or fails.            *)
RECURSIVE Bind(_, _, _)
\* t: [k |-> "name", n] | [k |-> "skip"] | [k |-> "tuple", ts]
Bind(env, t, v) ==
    IF t.k = "skip" THEN [env |-> env, ok |-> TRUE]
    ELSE IF t.k = "name" THEN [env |-> (t.n :> v) @@ env, ok |-> TRUE]
    ELSE IF v.k # "tup" \/ Len(v.v) # Len(t.ts) THEN [env |-> env, ok |-> FALSE]
    ELSE LET RECURSIVE Go(_, _)
             Go(e, i) == IF i > Len(t.ts) THEN [env |-> e, ok |-> TRUE]
                         ELSE LET r == Bind(e, t.ts[i], v.v[i]) IN IF r.ok THEN Go(r.env, i + 1) ELSE r
         IN  Go(env, 1)

\* structural equality of values (lists through the store); "type" = mismatched operands
RECURSIVE VEq(_, _, _)
VEq(a, b, st) ==
    IF IsNum(a) /\ IsNum(b) THEN (IF CmpExpect("eq", a, b) THEN "t" ELSE "f")
    ELSE IF a.k = "bool" /\ b.k = "bool" THEN (IF a.b = b.b THEN "t" ELSE "f")
    ELSE IF a.k = "ctx" /\ b.k = "ctx" THEN (IF a.c = b.c THEN "t" ELSE "f")
    ELSE IF (a.k = "tup" /\ b.k = "tup") \/ (a.k = "ref" /\ b.k = "ref") THEN
        LET xs == IF a.k = "tup" THEN a.v ELSE st[a.loc]
            ys == IF b.k = "tup" THEN b.v ELSE st[b.loc]
            RECURSIVE Go(_)
            Go(i) == IF i > Len(xs) THEN "t"
                     ELSE LET r == VEq(xs[i], ys[i], st) IN IF r = "t" THEN Go(i + 1) ELSE r
        IN  IF Len(xs) # Len(ys) THEN "f" ELSE Go(1)
    ELSE "type"

\* NaN-propagating min / max of a non-empty sequence of numbers (ties: -0 for min, +0 for max)
RECURSIVE FoldMinMax(_, _, _, _)
FoldMinMax(isMin, xs, i, acc) ==
    IF i > Len(xs) THEN acc
    ELSE LET x == xs[i]
             better == IF isMin THEN CmpExpect("lt", x, acc) \/ (CmpExpect("eq", x, acc) /\ x.s = 1 /\ acc.s = 0)
                       ELSE CmpExpect("gt", x, acc) \/ (CmpExpect("eq", x, acc) /\ x.s = 0 /\ acc.s = 1)
         IN  FoldMinMax(isMin, xs, i + 1, IF better THEN x ELSE acc)
MinMax(isMin, xs) ==
    IF \E i \in 1..Len(xs) : xs[i].k = "nan" THEN xs[CHOOSE i \in 1..Len(xs) : xs[i].k = "nan" /\ \A j \in 1..(i - 1) : xs[j].k # "nan"]
    ELSE FoldMinMax(isMin, xs, 2, xs[1])

\* context constructors the machine knows (arguments already evaluated, exactly)
MkCtx(cls, pos, kw) ==
    LET arg(i, name, dflt) == IF i <= Len(pos) THEN pos[i] ELSE IF name \in DOMAIN kw THEN kw[name] ELSE dflt
        rm(i)  == LET v == arg(i, "rm", [k |-> "enum", v |-> "RNE"]) IN v.v
        ovf(i, d) == LET v == arg(i, "overflow", [k |-> "enum", v |-> d]) IN v.v
        int(i, name) == IntOf(arg(i, name, OfInt(0)))
        base == [k |-> 0, nanv |-> <<>>, infv |-> <<>>]
    IN  CASE cls = "MPFloatContext" ->
               base @@ [fam |-> "mpfloat", p |-> int(1, "pmax"), rm |-> rm(2), nan |-> TRUE, inf |-> TRUE]
          [] cls = "MPSFloatContext" ->
               base @@ [fam |-> "mpsfloat", p |-> int(1, "pmax"), emin |-> int(2, "emin"), rm |-> rm(3), nan |-> TRUE, inf |-> TRUE]
          [] cls = "IEEEContext" ->
               base @@ [fam |-> "efloat", es |-> int(1, "es"), nbits |-> int(2, "nbits"), inf |-> TRUE, nk |-> "ieee",
                        eoff |-> 0, rm |-> rm(3), ov |-> ovf(4, "OVERFLOW")]
          [] cls = "MPFixedContext" ->
               base @@ [fam |-> "mpfixed", nmin |-> int(1, "nmin"), rm |-> rm(2), nan |-> FALSE, inf |-> FALSE,
                        negzero |-> IF "enable_neg_zero" \in DOMAIN kw THEN kw["enable_neg_zero"].b ELSE TRUE]
          [] cls = "FixedContext" ->
               base @@ [fam |-> "fixed", signed |-> arg(1, "signed", B(TRUE)).b, scale |-> int(2, "scale"),
                        nbits |-> int(3, "nbits"), rm |-> rm(4), ov |-> ovf(5, "WRAP")]
          [] cls = "SMFixedContext" ->
               base @@ [fam |-> "smfixed", scale |-> int(1, "scale"), nbits |-> int(2, "nbits"), rm |-> rm(3), ov |-> ovf(4, "WRAP")]
ValidCtx(c) ==
    CASE c.fam \in {"mpfloat", "mpsfloat"} -> c.p >= 1
      [] c.fam = "efloat" -> c.nbits >= 2 /\ c.es >= 1 /\ c.es < c.nbits - 1
      [] c.fam = "fixed" -> IF c.signed THEN c.nbits >= 2 ELSE c.nbits >= 1
      [] c.fam = "smfixed" -> c.nbits >= 2
      [] OTHER -> TRUE

-----------------------------------------------------------------------------
(* Expressions.  e is a record with k (AST class) and a (argument          *)
(* sequence) plus per-kind fields.  Eval returns [v, st, err].             *)
RECURSIVE Eval(_, _, _, _), EvalArgs(_, _, _, _, _, _)

\* evaluates e.a[i..] left to right, threading the store; result v is a sequence
EvalArgs(as, i, env, st, cx, acc) ==
    IF i > Len(as) THEN Ok(acc, st)
    ELSE LET r == Eval(as[i], env, st, cx)
         IN  IF r.err # "" THEN r ELSE EvalArgs(as, i + 1, env, r.st, cx, Append(acc, r.v))

Alloc(st, elems) == [st |-> Append(st, elems), v |-> Ref(Len(st) + 1)]

\* fp.empty(d1, ..., dn): every row at every level is a cell of its own; the innermost elements hold no value yet
Uninit == [k |-> "uninit"]
RECURSIVE AllocEmpty(_, _), AllocRows(_, _, _, _)
AllocEmpty(st, dims) ==
    IF Len(dims) = 1 THEN Alloc(st, [i \in 1..dims[1] |-> Uninit])
    ELSE LET rows == AllocRows(st, Tail(dims), dims[1], <<>>) IN Alloc(rows.st, rows.v)
AllocRows(st, dims, n, acc) ==
    IF n = 0 THEN [st |-> st, v |-> acc]
    ELSE LET a == AllocEmpty(st, dims) IN AllocRows(a.st, dims, n - 1, Append(acc, a.v))
RECURSIVE Product(_)
Product(s) == IF Len(s) = 0 THEN 1 ELSE Head(s) * Product(Tail(s))

RangeSeq(lo, hi, step) ==        \* as Python's range
    IF step > 0 THEN (IF hi <= lo THEN <<>> ELSE [i \in 1..((hi - lo + step - 1) \div step) |-> OfInt(lo + (i - 1) * step)])
    ELSE (IF hi >= lo THEN <<>> ELSE [i \in 1..((lo - hi + (-step) - 1) \div (-step)) |-> OfInt(lo + (i - 1) * step)])

\* list comprehension: nested generators, targets ts, iterables its (evaluated innermost-last)
RECURSIVE Comp(_, _, _, _, _, _, _)
Comp(e, g, env, st, cx, acc, dummy) ==
    \* generator g of e.its; returns [v: accumulated element sequence, st, err]
    IF g > Len(e.its) THEN
        LET r == Eval(e.elt, env, st, cx) IN IF r.err # "" THEN r ELSE Ok(Append(acc, r.v), r.st)
    ELSE LET it == Eval(e.its[g], env, st, cx)
         IN  IF it.err # "" THEN it
             ELSE IF it.v.k # "ref" THEN Er("TypeError", it.st)
             ELSE LET elems == it.st[it.v.loc]
                      RECURSIVE Each(_, _, _)
                      Each(j, s, a) ==
                          IF j > Len(elems) THEN Ok(a, s)
                          ELSE LET b == Bind(env, e.ts[g], elems[j])
                               IN  IF ~b.ok THEN Er("TypeError", s)
                                   ELSE LET r == Comp(e, g + 1, b.env, s, cx, a, 0)
                                        IN  IF r.err # "" THEN r ELSE Each(j + 1, r.st, r.v)
                  IN  Each(1, it.st, acc)

Eval(e, env, st, cx) ==
    CASE e.k = "Var" -> IF e.n \in DOMAIN env THEN Ok(env[e.n], st) ELSE Er("NameError", st)
      [] e.k = "BoolVal" -> Ok(B(e.v), st)
      [] e.k = "Num" -> IF e.v.k = "big" THEN Er("OutOfDomain", st) ELSE Ok(Canon(e.v), st)      \* a literal too wide for TLC integers: the run leaves the domain
      [] e.k = "CtxVal" -> Ok(CtxV(e.c), st)
      [] e.k = "Enum" -> Ok([k |-> "enum", v |-> e.v], st)
      [] e.k = "ConstNan" -> MRound(cx, NaN, st)
      [] e.k = "ConstInf" -> MRound(cx, Inf(0), st)
      [] e.k \in RoundedOps ->
           LET r == EvalArgs(e.a, 1, env, st, cx, <<>>)
           IN  IF r.err # "" THEN r
               ELSE IF \E i \in 1..Len(r.v) : ~IsNum(r.v[i]) THEN Er("TypeError", r.st)
               ELSE IF \E i \in 1..Len(r.v) : ~Small(r.v[i]) THEN Er("OutOfDomain", r.st)
               ELSE IF e.k = "Pow" /\ ~(IsIntV(r.v[2]) /\ r.v[2].n <= 8) THEN Er("OutOfDomain", r.st)
               ELSE IF e.k \in {"Sqrt", "Cbrt", "Hypot"} /\ (cx.fam = "real" \/ \E i \in 1..Len(r.v) : r.v[i].k = "fin" /\ ~IsDyadic(r.v[i]))
                    THEN Er("OutOfDomain", r.st)
               ELSE LET x == ExactOne(OpName[e.k], r.v, IF cx.fam = "real" THEN "RNE" ELSE cx.rm, GridFor(cx))
                    IN  IF x.irr /\ BigCtx(cx) THEN Er("OutOfDomain", r.st)     \* an irrational result under a wide format
                        ELSE MRound(cx, x.v, r.st)
      [] e.k = "Logb" ->          \* the normalized exponent floor(log2 |x|), an integer, rounded under the active context
           LET r == Eval(e.a[1], env, st, cx)
           IN  IF r.err # "" THEN r ELSE IF ~IsNum(r.v) THEN Er("TypeError", r.st)
               ELSE IF r.v.k = "nan" THEN MRound(cx, NaN, r.st)
               ELSE IF r.v.k = "inf" THEN MRound(cx, Inf(0), r.st)
               ELSE IF r.v.n = 0 THEN MRound(cx, Inf(1), r.st)
               ELSE IF ~Small(r.v) THEN Er("OutOfDomain", r.st)
               ELSE IF ~IsDyadic(r.v) THEN Er("ValueError", r.st)       \* a non-dyadic rational has no float form
               ELSE MRound(cx, OfInt(FloorLog2(r.v.n, r.v.d)), r.st)
      [] e.k = "NearbyInt" ->
           LET r == Eval(e.a[1], env, st, cx)
           IN  IF r.err # "" THEN r ELSE IF ~IsNum(r.v) THEN Er("TypeError", r.st)
               ELSE IF cx.fam = "real" \/ BigCtx(cx) \/ ~Small(r.v) THEN Er("OutOfDomain", r.st)
               ELSE LET ex == Expect(cx, r.v, TRUE, -1)
                    IN  IF ex.vals = {} THEN Er("ValueError", r.st) ELSE Ok(CHOOSE v \in ex.vals : TRUE, r.st)
      [] e.k \in {"Round", "Cast"} ->
           LET r == Eval(e.a[1], env, st, cx)
           IN  IF r.err # "" THEN r ELSE IF ~IsNum(r.v) THEN Er("TypeError", r.st)
               ELSE LET y == MRound(cx, r.v, r.st)
                    IN  IF y.err # "" THEN y
                        ELSE IF e.k = "Cast" /\ ~SameVal(y.v, r.v) /\ r.v.k = "fin" THEN Er("ValueError", r.st) ELSE y
      [] e.k = "RoundAt" ->
           LET r == EvalArgs(e.a, 1, env, st, cx, <<>>)
           IN  IF r.err # "" THEN r
               ELSE IF ~IsNum(r.v[1]) \/ ~IsIntV(r.v[2]) THEN Er("TypeError", r.st)
               ELSE IF cx.fam = "real" \/ BigCtx(cx) \/ ~Small(r.v[1]) THEN Er("OutOfDomain", r.st)
               ELSE LET ex == Expect(cx, r.v[1], TRUE, IntOf(r.v[2]))
                    IN  IF ex.vals = {} THEN Er("ValueError", r.st) ELSE Ok(CHOOSE v \in ex.vals : TRUE, r.st)
      [] e.k \in {"Max", "Min"} ->
           LET r == EvalArgs(e.a, 1, env, st, cx, <<>>)
           IN  IF r.err # "" THEN r
               ELSE LET xs == IF Len(r.v) = 1 /\ r.v[1].k = "ref" THEN r.st[r.v[1].loc] ELSE r.v
                    IN  IF Len(r.v) = 1 /\ r.v[1].k # "ref" THEN Er("TypeError", r.st)
                        ELSE IF Len(xs) = 0 THEN Er("ValueError", r.st)
                        ELSE IF \E i \in 1..Len(xs) : ~IsNum(xs[i]) THEN Er("TypeError", r.st)
                        ELSE Ok(MinMax(e.k = "Min", xs), r.st)
      [] e.k = "Sum" ->
           LET r == Eval(e.a[1], env, st, cx)
           IN  IF r.err # "" THEN r ELSE IF r.v.k # "ref" THEN Er("TypeError", r.st)
               ELSE LET xs == r.st[r.v.loc]
                        RECURSIVE Fold(_, _)
                        Fold(i, acc) ==
                            IF i > Len(xs) THEN Ok(acc, r.st)
                            ELSE IF ~IsNum(xs[i]) THEN Er("TypeError", r.st)
                            ELSE IF ~Small(acc) \/ ~Small(xs[i]) THEN Er("OutOfDomain", r.st)
                            ELSE LET y == MRound(cx, ExactOne("add", <<acc, xs[i]>>, IF cx.fam = "real" THEN "RNE" ELSE cx.rm, 4).v, r.st)
                                 IN  IF y.err # "" THEN y ELSE Fold(i + 1, y.v)
                    IN  IF Len(xs) = 0 THEN Ok(Zero(0), r.st)
                        ELSE IF ~IsNum(xs[1]) THEN Er("TypeError", r.st) ELSE Fold(2, xs[1])
      [] e.k \in {"IsNan", "IsInf", "IsFinite", "Signbit"} ->
           LET r == Eval(e.a[1], env, st, cx)
           IN  IF r.err # "" THEN r ELSE IF ~IsNum(r.v) THEN Er("TypeError", r.st)
               ELSE Ok(B(CASE e.k = "IsNan" -> r.v.k = "nan" [] e.k = "IsInf" -> r.v.k = "inf"
                           [] e.k = "IsFinite" -> r.v.k = "fin" [] e.k = "Signbit" -> r.v.k # "nan" /\ r.v.s = 1), r.st)
      [] e.k = "Not" ->
           LET r == Eval(e.a[1], env, st, cx)
           IN  IF r.err # "" THEN r ELSE IF r.v.k # "bool" THEN Er("TypeError", r.st) ELSE Ok(B(~r.v.b), r.st)
      [] e.k \in {"And", "Or"} ->
           LET RECURSIVE Go(_, _)
               Go(i, s) ==
                   IF i > Len(e.a) THEN Ok(B(e.k = "And"), s)
                   ELSE LET r == Eval(e.a[i], env, s, cx)
                        IN  IF r.err # "" THEN r ELSE IF r.v.k # "bool" THEN Er("TypeError", r.st)
                            ELSE IF r.v.b = (e.k = "Or") THEN Ok(r.v, r.st) ELSE Go(i + 1, r.st)
           IN  Go(1, st)
      [] e.k = "Compare" ->
           \* a chain: operands evaluated at most once, left to right, short-circuiting
           LET RECURSIVE Go(_, _, _)
               Go(i, s, left) ==
                   IF i > Len(e.ops) THEN Ok(B(TRUE), s)
                   ELSE LET r == Eval(e.a[i + 1], env, s, cx)
                        IN  IF r.err # "" THEN r
                            ELSE LET op == e.ops[i]
                                     t  == IF op \in {"eq", "ne"} THEN VEq(left, r.v, r.st)
                                           ELSE IF ~IsNum(left) \/ ~IsNum(r.v) THEN "type"
                                           ELSE IF CmpExpect(op, left, r.v) THEN "t" ELSE "f"
                                     b  == IF op = "ne" THEN (IF t = "t" THEN "f" ELSE IF t = "f" THEN "t" ELSE t) ELSE t
                                 IN  IF b = "type" THEN Er("TypeError", r.st)
                                     ELSE IF b = "f" THEN Ok(B(FALSE), r.st) ELSE Go(i + 1, r.st, r.v)
               first == Eval(e.a[1], env, st, cx)
           IN  IF first.err # "" THEN first ELSE Go(1, first.st, first.v)
      [] e.k = "IfExpr" ->
           LET c == Eval(e.c, env, st, cx)
           IN  IF c.err # "" THEN c ELSE IF c.v.k # "bool" THEN Er("TypeError", c.st)
               ELSE IF c.v.b THEN Eval(e.t, env, c.st, cx) ELSE Eval(e.f, env, c.st, cx)
      [] e.k = "TupleExpr" ->
           LET r == EvalArgs(e.a, 1, env, st, cx, <<>>) IN IF r.err # "" THEN r ELSE Ok(Tup(r.v), r.st)
      [] e.k = "ListExpr" ->
           LET r == EvalArgs(e.a, 1, env, st, cx, <<>>)
           IN  IF r.err # "" THEN r ELSE LET al == Alloc(r.st, r.v) IN Ok(al.v, al.st)
      [] e.k = "ListComp" ->
           LET r == Comp(e, 1, env, st, cx, <<>>, 0)
           IN  IF r.err # "" THEN r ELSE LET al == Alloc(r.st, r.v) IN Ok(al.v, al.st)
      [] e.k = "ListRef" ->
           LET r == EvalArgs(<<e.a[1], e.a[2]>>, 1, env, st, cx, <<>>)
           IN  IF r.err # "" THEN r
               ELSE IF r.v[1].k # "ref" \/ ~IsNum(r.v[2]) \/ ~IsIntV(r.v[2]) THEN Er("TypeError", r.st)
               ELSE LET i == IntOf(r.v[2])  xs == r.st[r.v[1].loc]
                    IN  IF i < 0 \/ i >= Len(xs) THEN Er("IndexError", r.st) ELSE Ok(xs[i + 1], r.st)
      [] e.k = "ListSlice" ->
           LET r == Eval(e.a[1], env, st, cx)
               lo == IF Len(e.lo) = 0 THEN Ok(OfInt(0), r.st) ELSE Eval(e.lo[1], env, r.st, cx)
           IN  IF r.err # "" THEN r ELSE IF lo.err # "" THEN lo
               ELSE IF r.v.k # "ref" THEN Er("TypeError", lo.st)
               ELSE LET xs == lo.st[r.v.loc]
                        hi == IF Len(e.hi) = 0 THEN Ok(OfInt(Len(xs)), lo.st) ELSE Eval(e.hi[1], env, lo.st, cx)
                    IN  IF hi.err # "" THEN hi
                        ELSE IF ~IsNum(lo.v) \/ ~IsNum(hi.v) \/ ~IsIntV(lo.v) \/ ~IsIntV(hi.v) THEN Er("TypeError", hi.st)
                        ELSE LET a == IntOf(lo.v)  b == IntOf(hi.v)
                             IN  IF a < 0 \/ b > Len(xs) \/ a > b THEN Er("IndexError", hi.st)
                                 ELSE LET al == Alloc(hi.st, SubSeq(xs, a + 1, b)) IN Ok(al.v, al.st)
      [] e.k = "Len" ->
           LET r == Eval(e.a[1], env, st, cx)
           IN  IF r.err # "" THEN r ELSE IF r.v.k # "ref" THEN Er("TypeError", r.st) ELSE Ok(OfInt(Len(r.st[r.v.loc])), r.st)
      [] e.k \in {"Range1", "Range2", "Range3"} ->
           LET r == EvalArgs(e.a, 1, env, st, cx, <<>>)
           IN  IF r.err # "" THEN r
               ELSE IF \E i \in 1..Len(r.v) : ~IsNum(r.v[i]) THEN Er("TypeError", r.st)
               ELSE IF \E i \in 1..Len(r.v) : ~IsIntV(r.v[i]) THEN Er("ValueError", r.st)
               ELSE LET lo == IF Len(r.v) = 1 THEN 0 ELSE IntOf(r.v[1])
                        hi == IF Len(r.v) = 1 THEN IntOf(r.v[1]) ELSE IntOf(r.v[2])
                        sp == IF Len(r.v) = 3 THEN IntOf(r.v[3]) ELSE 1
                    IN  IF sp = 0 THEN Er("ValueError", r.st)
                        ELSE IF hi - lo > 64 \/ lo - hi > 64 THEN Er("OutOfDomain", r.st)
                        ELSE LET al == Alloc(r.st, RangeSeq(lo, hi, sp)) IN Ok(al.v, al.st)
      [] e.k = "Empty" ->
           LET r == EvalArgs(e.a, 1, env, st, cx, <<>>)
           IN  IF r.err # "" THEN r
               ELSE IF Len(r.v) = 0 THEN Er("ValueError", r.st)
               ELSE IF \E i \in 1..Len(r.v) : ~IsNum(r.v[i]) THEN Er("TypeError", r.st)
               ELSE IF \E i \in 1..Len(r.v) : ~IsIntV(r.v[i]) \/ IntOf(r.v[i]) < 0 THEN Er("ValueError", r.st)
               ELSE LET dims == [i \in 1..Len(r.v) |-> IntOf(r.v[i])]
                    IN  IF (\E i \in 1..Len(dims) : dims[i] > 8) \/ Product(dims) > 64 THEN Er("OutOfDomain", r.st)
                        ELSE LET al == AllocEmpty(r.st, dims) IN Ok(al.v, al.st)
      [] e.k = "Zip" ->
           LET r == EvalArgs(e.a, 1, env, st, cx, <<>>)
           IN  IF r.err # "" THEN r
               ELSE IF \E i \in 1..Len(r.v) : r.v[i].k # "ref" THEN Er("TypeError", r.st)
               ELSE LET ls == [i \in 1..Len(r.v) |-> r.st[r.v[i].loc]]
                    IN  IF \E i \in 1..Len(ls) : Len(ls[i]) # Len(ls[1]) THEN Er("Undefined", r.st)
                        ELSE LET al == Alloc(r.st, [j \in 1..Len(ls[1]) |-> Tup([i \in 1..Len(ls) |-> ls[i][j]])])
                             IN  Ok(al.v, al.st)
      [] e.k = "Enumerate" ->
           LET r == Eval(e.a[1], env, st, cx)
           IN  IF r.err # "" THEN r ELSE IF r.v.k # "ref" THEN Er("TypeError", r.st)
               ELSE LET xs == r.st[r.v.loc]
                        al == Alloc(r.st, [j \in 1..Len(xs) |-> Tup(<<OfInt(j - 1), xs[j]>>)])
                    IN  Ok(al.v, al.st)
      [] e.k \in {"AnyOf", "AllOf"} ->
           LET r == Eval(e.a[1], env, st, cx)
           IN  IF r.err # "" THEN r ELSE IF r.v.k # "ref" THEN Er("TypeError", r.st)
               ELSE LET xs == r.st[r.v.loc]
                    IN  IF \E i \in 1..Len(xs) : xs[i].k # "bool" THEN Er("TypeError", r.st)
                        ELSE Ok(B(IF e.k = "AnyOf" THEN \E i \in 1..Len(xs) : xs[i].b ELSE \A i \in 1..Len(xs) : xs[i].b), r.st)
      [] e.k \in {"Fst", "Snd"} ->
           LET r == Eval(e.a[1], env, st, cx)
           IN  IF r.err # "" THEN r ELSE IF r.v.k # "tup" \/ Len(r.v.v) # 2 THEN Er("TypeError", r.st)
               ELSE Ok(r.v.v[IF e.k = "Fst" THEN 1 ELSE 2], r.st)
      [] e.k = "CtxCall" ->
           \* a context constructor: its arguments are evaluated exactly (under REAL)
           LET r  == EvalArgs(e.a, 1, env, st, RealCtx, <<>>)
               kr == IF r.err # "" THEN r ELSE EvalArgs(e.kwv, 1, env, r.st, RealCtx, <<>>)
           IN  IF r.err # "" THEN r ELSE IF kr.err # "" THEN kr
               ELSE IF \E i \in 1..Len(r.v) : r.v[i].k = "big" THEN Er("OutOfDomain", kr.st)
               ELSE IF \E i \in 1..Len(r.v) : IsNum(r.v[i]) /\ ~IsIntV(r.v[i]) THEN Er("ValueError", kr.st)
               ELSE LET kw == [n \in {e.kwn[i] : i \in 1..Len(e.kwn)} |-> kr.v[CHOOSE i \in 1..Len(e.kwn) : e.kwn[i] = n]]
                        c  == MkCtx(e.cls, r.v, kw)
                    IN  IF ValidCtx(c) THEN Ok(CtxV(c), kr.st) ELSE Er("ValueError", kr.st)
      [] e.k = "Prim" ->
           \* the Python primitives of fpy2.libraries.core, specified from their docstrings; every
           \* component is returned through ctx.round(., exact=True): an unrepresentable part is an error
           LET r == EvalArgs(e.a, 1, env, st, cx, <<>>)
               exact(v) == LET y == MRound(cx, v, r.st)
                           IN  IF y.err # "" THEN y
                               ELSE IF v.k = "fin" /\ ~SameVal(y.v, v) THEN Er("ValueError", r.st) ELSE y
               pair(a, b) == LET x == exact(a)  y == exact(b)
                             IN  IF x.err # "" THEN x ELSE IF y.err # "" THEN y ELSE Ok(Tup(<<x.v, y.v>>), r.st)
           IN  IF r.err # "" THEN r
               ELSE IF \E i \in 1..Len(r.v) : ~IsNum(r.v[i]) THEN Er("TypeError", r.st)
               ELSE IF \E i \in 1..Len(r.v) : ~Small(r.v[i]) THEN Er("OutOfDomain", r.st)
               ELSE IF cx.fam = "real" /\ e.fn \in {"max_p", "min_n"} THEN Er("ValueError", r.st)
               ELSE IF cx.fam # "real" /\ BigCtx(cx) THEN Er("OutOfDomain", r.st)
               ELSE
               CASE e.fn = "max_p" ->
                      IF cx.fam = "exp" THEN MRound(cx, OfInt(1), r.st)
                      ELSE LET f == Core(cx) IN IF f.hasP THEN MRound(cx, OfInt(f.p), r.st) ELSE Er("ValueError", r.st)
                 [] e.fn = "min_n" ->
                      IF cx.fam = "exp" THEN Er("ValueError", r.st)
                      ELSE LET f == Core(cx) IN IF f.hasN THEN MRound(cx, OfInt(f.nmin), r.st) ELSE Er("ValueError", r.st)
                 [] e.fn \in {"modf", "split"} ->
                      LET x == r.v[1]
                          n == IF e.fn = "modf" THEN -1 ELSE IntOf(r.v[2])
                      IN  IF e.fn = "split" /\ ~IsIntV(r.v[2]) THEN Er("ValueError", r.st)
                          ELSE IF x.k = "nan" THEN pair(NaN, NaN)
                          ELSE IF x.k = "inf" THEN (IF e.fn = "modf" THEN pair(Zero(x.s), x) ELSE pair(x, x))
                          ELSE IF x.n = 0 THEN pair(x, x)
                          ELSE LET hi == RoundU([hasP |-> FALSE, p |-> 0, hasN |-> TRUE, nmin |-> n], "RTZ", x).val
                                   lo == RSub(x, hi)
                               IN  pair(hi, IF lo.n = 0 THEN Zero(x.s) ELSE lo)
                 [] e.fn = "frexp" ->
                      LET x == r.v[1]
                      IN  IF x.k = "nan" THEN pair(NaN, NaN)
                          ELSE IF x.k = "inf" THEN pair(x, NaN)
                          ELSE IF x.n = 0 THEN pair(x, Zero(0))
                          ELSE LET ex == FloorLog2(x.n, x.d)
                                   m  == RMulPow2(x, -ex)
                                   ev == exact(OfInt(ex))          \* exactly, like the mantissa (the code raises where the context cannot hold it)
                                   mv == exact(m)
                               IN  IF mv.err # "" THEN mv ELSE IF ev.err # "" THEN ev ELSE Ok(Tup(<<mv.v, ev.v>>), r.st)
      [] OTHER -> Er("Unsupported", st)

-----------------------------------------------------------------------------
(* The state machine.                                                      *)
VARIABLES pid, inp,         \* which program / which input (never change)
          frames,           \* call stack, innermost last
          store, ctx, status, result, steps

mvars == <<pid, inp, frames, store, ctx, status, result, steps>>

P == Progs[pid]
Fn(name) == P.funcs[name]
Blk(fname, b) == Fn(fname).blocks[b]

\* Python boundary: argument values are copied into fresh store cells
RECURSIVE Load(_, _)
Load(v, st) ==         \* v: exported value; returns [v, st]
    IF v.k = "list" THEN
        LET RECURSIVE Go(_, _, _)
            Go(i, s, acc) == IF i > Len(v.v) THEN [v |-> acc, st |-> s]
                             ELSE LET r == Load(v.v[i], s) IN Go(i + 1, r.st, Append(acc, r.v))
            r == Go(1, st, <<>>)
            al == Alloc(r.st, r.v)
        IN  [v |-> al.v, st |-> al.st]
    ELSE IF v.k = "tuple" THEN
        LET RECURSIVE Go(_, _, _)
            Go(i, s, acc) == IF i > Len(v.v) THEN [v |-> acc, st |-> s]
                             ELSE LET r == Load(v.v[i], s) IN Go(i + 1, r.st, Append(acc, r.v))
            r == Go(1, st, <<>>)
        IN  [v |-> Tup(r.v), st |-> r.st]
    ELSE IF v.k = "bool" THEN [v |-> B(v.b), st |-> st]
    ELSE IF v.k = "ctx" THEN [v |-> CtxV(v.c), st |-> st]
    ELSE IF v.k = "big" THEN [v |-> v, st |-> st]       \* a number too wide for TLC: an opaque token that may only travel
    ELSE [v |-> Canon(v), st |-> st]

\* result as a store-free value (what crosses back to Python)
RECURSIVE Deep(_, _)
Deep(v, st) ==
    IF v.k = "ref" THEN [k |-> "list", v |-> [i \in 1..Len(st[v.loc]) |-> Deep(st[v.loc][i], st)]]
    ELSE IF v.k = "tup" THEN [k |-> "tuple", v |-> [i \in 1..Len(v.v) |-> Deep(v.v[i], st)]]
    ELSE v

EntryCtx(f, callctx) ==      \* declared context, else the caller's, else IEEE double
    IF Len(f.ctx) = 1 THEN f.ctx[1]
    ELSE IF Len(callctx) = 1 THEN callctx[1]
    ELSE [fam |-> "efloat", es |-> 11, nbits |-> 64, inf |-> TRUE, nk |-> "ieee", eoff |-> 0,
          rm |-> "RNE", ov |-> "OVERFLOW", k |-> 0, nanv |-> <<>>, infv |-> <<>>]

\* the first state of running program p on its i-th input vector
InitRec(p, i) ==
    LET pr == Progs[p]
        f  == pr.funcs[pr.main]
        ins == pr.inputs[i]
        RECURSIVE Go(_, _, _)
        Go(j, s, env) == IF j > Len(f.params) THEN [env |-> env, st |-> s]
                         ELSE LET r == Load(ins.args[j], s) IN Go(j + 1, r.st, (f.params[j] :> r.v) @@ env)
        ld == Go(1, <<>>, f.free)
    IN  [frames |-> <<[fn |-> pr.main, env |-> ld.env, kont |-> <<[b |-> 1, i |-> 1, kind |-> "body"]>>,
                       saved |-> RealCtx, tgt |-> [k |-> "skip"], mode |-> "top"]>>,
         store |-> ld.st, ctx |-> EntryCtx(f, ins.ctx)]

InitFor(p, i) ==
    LET r == InitRec(p, i)
    IN  /\ pid = p /\ inp = i
        /\ frames = r.frames /\ store = r.store /\ ctx = r.ctx
        /\ status = "run" /\ result = NaN /\ steps = 0

MInit == \E p \in 1..Len(Progs) : \E i \in 1..Len(Progs[p].inputs) : InitFor(p, i)

Top     == frames[Len(frames)]
K       == Top.kont[Len(Top.kont)]
AtEnd   == K.i > Len(Blk(Top.fn, K.b))
Cur     == Blk(Top.fn, K.b)[K.i]

SetTop(fr) == [frames EXCEPT ![Len(frames)] = fr]
\* advance the innermost cursor of the top frame
Adv(fr) == [fr EXCEPT !.kont[Len(fr.kont)].i = @ + 1]
Push(fr, ent) == [fr EXCEPT !.kont = Append(@, ent)]
Pop(fr) == [fr EXCEPT !.kont = SubSeq(@, 1, Len(@) - 1)]

Fail(e) == /\ status' = "err" /\ result' = [k |-> "err", e |-> e]
           /\ UNCHANGED <<pid, inp, frames, store, ctx>> /\ steps' = steps + 1
Step(fs, st, cx) == /\ frames' = fs /\ store' = st /\ ctx' = cx /\ steps' = steps + 1
                    /\ UNCHANGED <<pid, inp, status, result>>

Running == status = "run" /\ ~AtEnd

IsUserCall(e) == e.k = "Call"

\* --- E-Assign
Assign ==
    /\ Running /\ Cur.k = "Assign" /\ ~IsUserCall(Cur.e)
    /\ LET r == Eval(Cur.e, Top.env, store, ctx)
       IN  IF r.err # "" THEN Fail(r.err)
           ELSE LET b == Bind(Top.env, Cur.t, r.v)
                IN  IF ~b.ok THEN Fail("TypeError")
                    ELSE Step(SetTop(Adv([Top EXCEPT !.env = b.env])), r.st, ctx)

\* --- E-Index + E-Update
IndexedAssign ==
    /\ Running /\ Cur.k = "IndexedAssign"
    /\ LET ix == EvalArgs(Cur.ix, 1, Top.env, store, ctx, <<>>)
           r  == IF ix.err # "" THEN ix ELSE Eval(Cur.e, Top.env, ix.st, ctx)
       IN  IF ix.err # "" THEN Fail(ix.err) ELSE IF r.err # "" THEN Fail(r.err)
           ELSE IF Cur.v \notin DOMAIN Top.env THEN Fail("NameError")
           ELSE LET RECURSIVE Walk(_, _)
                    \* follows all but the last index; returns the location to write, or 0
                    Walk(v, j) ==
                        IF v.k # "ref" THEN -1
                        ELSE IF ~IsNum(ix.v[j]) \/ ~IsIntV(ix.v[j]) THEN -1
                        ELSE LET n == IntOf(ix.v[j]) IN
                             IF n < 0 \/ n >= Len(r.st[v.loc]) THEN 0
                             ELSE IF j = Len(ix.v) THEN v.loc ELSE Walk(r.st[v.loc][n + 1], j + 1)
                    loc == Walk(Top.env[Cur.v], 1)
                IN  IF loc = -1 THEN Fail("TypeError") ELSE IF loc = 0 THEN Fail("IndexError")
                    ELSE Step(SetTop(Adv(Top)),
                              [r.st EXCEPT ![loc][IntOf(ix.v[Len(ix.v)]) + 1] = r.v], ctx)

CondOf(e) == Eval(e, Top.env, store, ctx)

IfTrue ==
    /\ Running /\ Cur.k \in {"If", "If1"}
    /\ LET c == CondOf(Cur.c) IN
       /\ c.err = "" /\ c.v.k = "bool" /\ c.v.b
       /\ Step(SetTop(Push(Top, [b |-> Cur.t, i |-> 1, kind |-> "if"])), c.st, ctx)
IfFalse ==
    /\ Running /\ Cur.k = "If"
    /\ LET c == CondOf(Cur.c) IN
       /\ c.err = "" /\ c.v.k = "bool" /\ ~c.v.b
       /\ Step(SetTop(Push(Top, [b |-> Cur.f, i |-> 1, kind |-> "if"])), c.st, ctx)
If1Skip ==
    /\ Running /\ Cur.k = "If1"
    /\ LET c == CondOf(Cur.c) IN
       /\ c.err = "" /\ c.v.k = "bool" /\ ~c.v.b
       /\ Step(SetTop(Adv(Top)), c.st, ctx)
CondError ==
    /\ Running /\ Cur.k \in {"If", "If1", "While", "Assert"}
    /\ LET c == CondOf(Cur.c) IN
       /\ (c.err # "" \/ c.v.k # "bool")
       /\ Fail(IF c.err # "" THEN c.err ELSE "TypeError")

WhileTrue ==
    /\ Running /\ Cur.k = "While"
    /\ LET c == CondOf(Cur.c) IN
       /\ c.err = "" /\ c.v.k = "bool" /\ c.v.b
       /\ Step(SetTop(Push(Top, [b |-> Cur.b, i |-> 1, kind |-> "while"])), c.st, ctx)
WhileFalse ==
    /\ Running /\ Cur.k = "While"
    /\ LET c == CondOf(Cur.c) IN
       /\ c.err = "" /\ c.v.k = "bool" /\ ~c.v.b
       /\ Step(SetTop(Adv(Top)), c.st, ctx)

\* for: the iterable is evaluated once; elements are read live, the length is fixed
ForInit ==
    /\ Running /\ Cur.k = "For"
    /\ LET r == Eval(Cur.it, Top.env, store, ctx)
       IN  IF r.err # "" THEN Fail(r.err)
           ELSE IF r.v.k # "ref" THEN Fail("TypeError")
           ELSE IF Len(r.st[r.v.loc]) = 0 THEN Step(SetTop(Adv(Top)), r.st, ctx)
           ELSE LET b == Bind(Top.env, Cur.t, r.st[r.v.loc][1])
                IN  IF ~b.ok THEN Fail("TypeError")
                    ELSE Step(SetTop(Push([Top EXCEPT !.env = b.env],
                                          [b |-> Cur.b, i |-> 1, kind |-> "for", loc |-> r.v.loc, pos |-> 1, n |-> Len(r.st[r.v.loc])])),
                              r.st, ctx)

\* a nested block ran to its end
BlockEnd ==
    /\ status = "run" /\ AtEnd /\ Len(Top.kont) > 1
    /\ LET fr == Pop(Top)
           parent == Blk(Top.fn, fr.kont[Len(fr.kont)].b)[fr.kont[Len(fr.kont)].i]
       IN  CASE K.kind = "if" -> Step(SetTop(Adv(fr)), store, ctx)
             [] K.kind = "while" -> Step(SetTop(fr), store, ctx)                 \* re-test the loop
             [] K.kind = "with" -> Step(SetTop(Adv(fr)), store, K.saved)         \* previous context back in force
             [] K.kind = "for" ->
                  IF K.pos >= K.n THEN Step(SetTop(Adv(fr)), store, ctx)
                  ELSE LET b == Bind(Top.env, parent.t, store[K.loc][K.pos + 1])
                       IN  IF ~b.ok THEN Fail("TypeError")
                           ELSE Step(SetTop([Top EXCEPT !.env = b.env,
                                                         !.kont[Len(Top.kont)].i = 1,
                                                         !.kont[Len(Top.kont)].pos = K.pos + 1]), store, ctx)

\* --- E-Context: constructor under REAL, target bound, new context for exactly the body
WithEnter ==
    /\ Running /\ Cur.k = "With"
    /\ LET r == Eval(Cur.c, Top.env, store, RealCtx)
       IN  IF r.err # "" THEN Fail(r.err)
           ELSE IF r.v.k # "ctx" THEN Fail("TypeError")
           ELSE LET b == Bind(Top.env, Cur.t, r.v)
                IN  Step(SetTop(Push([Top EXCEPT !.env = b.env], [b |-> Cur.b, i |-> 1, kind |-> "with", saved |-> ctx])),
                         r.st, r.v.c)

AssertOk ==
    /\ Running /\ Cur.k = "Assert"
    /\ LET c == CondOf(Cur.c) IN /\ c.err = "" /\ c.v.k = "bool" /\ c.v.b /\ Step(SetTop(Adv(Top)), c.st, ctx)
AssertFail ==
    /\ Running /\ Cur.k = "Assert"
    /\ LET c == CondOf(Cur.c) IN /\ c.err = "" /\ c.v.k = "bool" /\ ~c.v.b /\ Fail("AssertionError")

Effect ==
    /\ Running /\ Cur.k = "Effect" /\ ~IsUserCall(Cur.e)
    /\ LET r == Eval(Cur.e, Top.env, store, ctx)
       IN  IF r.err # "" THEN Fail(r.err) ELSE Step(SetTop(Adv(Top)), r.st, ctx)

Pass == Running /\ Cur.k = "Pass" /\ Step(SetTop(Adv(Top)), store, ctx)

\* --- E-App: arguments in the caller's context, body in a fresh environment, the same store;
\*     the callee runs under its declared context if it has one, else the caller's
CallEnter ==
    /\ Running /\ Cur.k \in {"Assign", "Effect", "Return"} /\ IsUserCall(Cur.e)
    /\ LET r == EvalArgs(Cur.e.a, 1, Top.env, store, ctx, <<>>)
           g == Fn(Cur.e.fn)
       IN  IF r.err # "" THEN Fail(r.err)
           ELSE IF Len(r.v) # Len(g.params) THEN Fail("TypeError")
           ELSE IF Len(frames) >= 6 THEN Fail("OutOfDomain")
           ELSE Step(Append(frames,
                            [fn |-> Cur.e.fn,
                             env |-> [n \in {g.params[i] : i \in 1..Len(g.params)} |->
                                         r.v[CHOOSE i \in 1..Len(g.params) : g.params[i] = n]] @@ g.free,
                             kont |-> <<[b |-> 1, i |-> 1, kind |-> "body"]>>,
                             saved |-> ctx,
                             tgt |-> IF Cur.k = "Assign" THEN Cur.t ELSE [k |-> "skip"],
                             mode |-> Cur.k]),
                     r.st, IF Len(g.ctx) = 1 THEN g.ctx[1] ELSE ctx)

\* --- E-Ret
RECURSIVE Unwind(_, _, _)
\* returning value v from the top frame of fs
Unwind(fs, v, st) ==
    LET fr == fs[Len(fs)] IN
    IF Len(fs) = 1 THEN [done |-> TRUE, v |-> v, fs |-> fs, cx |-> fr.saved, err |-> ""]
    ELSE LET rest == SubSeq(fs, 1, Len(fs) - 1)
             caller == rest[Len(rest)]
         IN  IF fr.mode = "Return" THEN Unwind(rest, v, st) \* `return f(x)` in the caller: the caller returns too
             ELSE LET b == Bind(caller.env, fr.tgt, v)
                  IN  IF ~b.ok THEN [done |-> FALSE, v |-> v, fs |-> fs, cx |-> fr.saved, err |-> "TypeError"]
                      ELSE [done |-> FALSE, v |-> v, cx |-> fr.saved, err |-> "",
                            fs |-> [rest EXCEPT ![Len(rest)] = Adv([caller EXCEPT !.env = b.env])]]
\* context to restore: the one saved by the outermost frame that is popped
RECURSIVE SavedAfter(_)
SavedAfter(fs) == LET fr == fs[Len(fs)] IN
    IF Len(fs) > 1 /\ fr.mode = "Return" THEN SavedAfter(SubSeq(fs, 1, Len(fs) - 1)) ELSE fr.saved

Return ==
    /\ Running /\ Cur.k = "Return" /\ ~IsUserCall(Cur.e)
    /\ LET r == Eval(Cur.e, Top.env, store, ctx)
       IN  IF r.err # "" THEN Fail(r.err)
           ELSE LET u == Unwind(frames, r.v, r.st)
                IN  IF u.err # "" THEN Fail(u.err)
                    ELSE IF u.done THEN
                        /\ status' = "done" /\ result' = Deep(r.v, r.st) /\ store' = r.st
                        /\ frames' = frames /\ ctx' = ctx /\ steps' = steps + 1 /\ UNCHANGED <<pid, inp>>
                    ELSE Step(u.fs, r.st, SavedAfter(frames))

\* control reaches the end of a function body without a return
FallOff ==
    /\ status = "run" /\ AtEnd /\ Len(Top.kont) = 1
    /\ Fail("FallOff")

MNext == Assign \/ IndexedAssign \/ IfTrue \/ IfFalse \/ If1Skip \/ CondError \/ WhileTrue \/ WhileFalse
         \/ ForInit \/ BlockEnd \/ WithEnter \/ AssertOk \/ AssertFail \/ Effect \/ Pass
         \/ CallEnter \/ Return \/ FallOff
=============================================================================
