------------------------------- MODULE Literal -------------------------------
(***************************************************************************)
(* C06: what a numeric literal denotes.                                    *)
(*                                                                         *)
(* A decimal spelling arrives as its sequence of characters.  The lexer is *)
(* a state machine (one action per character class) whose state is the     *)
(* decimal NORMAL FORM  (-1)^neg * D * 10^E,  D a digit sequence without   *)
(* leading or trailing zeros -- no big integers are needed, whatever the   *)
(* length of the spelling or the size of the exponent.  After the last     *)
(* character the Finish action compares the normal form with the normal    *)
(* form of what the real front end + interpreter returned under REAL.      *)
(* The same run checks that the lexer accepts exactly the spellings        *)
(* Python's grammar accepts (py_ok), so the oracle reads the language the  *)
(* front end reads.                                                        *)
(* Hexadecimal-float strings use the binary normal form B * 2^E (B a bit   *)
(* sequence); rational(p, q) and digits(m, e, b) are small and judged by   *)
(* cross-multiplication.                                                   *)
(***************************************************************************)
EXTENDS Rounding, Json, IOUtils

Recs == ndJsonDeserialize(IOEnv.TRACE_FILE)
DIGITS == [c \in {"0", "1", "2", "3", "4", "5", "6", "7", "8", "9"} |->
             CASE c = "0" -> 0 [] c = "1" -> 1 [] c = "2" -> 2 [] c = "3" -> 3 [] c = "4" -> 4
               [] c = "5" -> 5 [] c = "6" -> 6 [] c = "7" -> 7 [] c = "8" -> 8 [] c = "9" -> 9]
HEX == [c \in {"a", "b", "c", "d", "e", "f"} |->
          CASE c = "a" -> 10 [] c = "b" -> 11 [] c = "c" -> 12 [] c = "d" -> 13 [] c = "e" -> 14 [] c = "f" -> 15]
IsDigit(c) == c \in DOMAIN DIGITS
IsHex(c) == IsDigit(c) \/ c \in DOMAIN HEX
HexVal(c) == IF IsDigit(c) THEN DIGITS[c] ELSE HEX[c]
Bits4(v) == <<(v \div 8) % 2, (v \div 4) % 2, (v \div 2) % 2, v % 2>>

VARIABLES l,          \* record
          i,          \* next character
          st,         \* lexer state: "start","int","point","frac","emark","esign","exp","bad"
          neg, ds,    \* sign, significant digits read so far (leading zeros dropped)
          nfrac,      \* digits read after the point
          nint,       \* digits of the integer part (with leading zeros)
          lead0,      \* the integer part has a leading zero followed by another digit
          eneg, ev,   \* exponent sign and value
          bad
lvars == <<l, i, st, neg, ds, nfrac, nint, lead0, eneg, ev, bad>>

R == Recs[l]
Ch == R.sp[i]
More == l <= Len(Recs) /\ i <= Len(R.sp)
Radix == IF R.kind = "hex" THEN 16 ELSE 10

Reset == /\ i' = 1 /\ st' = "start" /\ neg' = 0 /\ ds' = <<>> /\ nfrac' = 0 /\ nint' = 0 /\ lead0' = FALSE
         /\ eneg' = 0 /\ ev' = 0
Init == l = 1 /\ i = 1 /\ st = "start" /\ neg = 0 /\ ds = <<>> /\ nfrac = 0 /\ nint = 0 /\ lead0 = FALSE
        /\ eneg = 0 /\ ev = 0 /\ bad = 0

Keep(vs) == UNCHANGED vs
Digit(c) == IF R.kind = "hex" THEN IsHex(c) ELSE IsDigit(c)
PushDigit(c) == IF ds = <<>> /\ HexVal(c) = 0 THEN ds ELSE Append(ds, HexVal(c))

Sign == /\ More /\ st = "start" /\ Ch \in {"-", "+"} /\ neg = 0 /\ i = 1
        /\ neg' = (IF Ch = "-" THEN 1 ELSE 0) /\ i' = i + 1 /\ st' = "start0"
        /\ Keep(<<l, ds, nfrac, nint, lead0, eneg, ev, bad>>)
IntDigit == /\ More /\ st \in {"start", "start0", "int"} /\ Digit(Ch)
            /\ ds' = PushDigit(Ch) /\ nint' = nint + 1
            /\ lead0' = (lead0 \/ (nint = 1 /\ ds = <<>>))      \* a digit after a leading 0
            /\ st' = "int" /\ i' = i + 1
            /\ Keep(<<l, neg, nfrac, eneg, ev, bad>>)
Point == /\ More /\ st \in {"start", "start0", "int"} /\ Ch = "."
         /\ st' = "point" /\ i' = i + 1 /\ Keep(<<l, neg, ds, nfrac, nint, lead0, eneg, ev, bad>>)
FracDigit == /\ More /\ st \in {"point", "frac"} /\ Digit(Ch)
             /\ ds' = PushDigit(Ch) /\ nfrac' = nfrac + 1 /\ st' = "frac" /\ i' = i + 1
             /\ Keep(<<l, neg, nint, lead0, eneg, ev, bad>>)
ExpMark == /\ More /\ Ch = (IF R.kind = "hex" THEN "p" ELSE "e")
           /\ (st \in {"int", "frac"} \/ (st = "point" /\ nint > 0))
           /\ st' = "emark" /\ i' = i + 1 /\ Keep(<<l, neg, ds, nfrac, nint, lead0, eneg, ev, bad>>)
ExpSign == /\ More /\ st = "emark" /\ Ch \in {"-", "+"}
           /\ eneg' = (IF Ch = "-" THEN 1 ELSE 0) /\ st' = "esign" /\ i' = i + 1
           /\ Keep(<<l, neg, ds, nfrac, nint, lead0, ev, bad>>)
ExpDigit == /\ More /\ st \in {"emark", "esign", "exp"} /\ IsDigit(Ch)
            /\ ev' = (IF ev > 100000 THEN ev ELSE 10 * ev + DIGITS[Ch]) /\ st' = "exp" /\ i' = i + 1
            /\ Keep(<<l, neg, ds, nfrac, nint, lead0, eneg, bad>>)
Stuck == /\ More /\ st # "bad"
         /\ ~(\/ (st = "start" /\ Ch \in {"-", "+"} /\ i = 1)
              \/ (st \in {"start", "start0", "int"} /\ Digit(Ch))
              \/ (st \in {"start", "start0", "int"} /\ Ch = ".")
              \/ (st \in {"point", "frac"} /\ Digit(Ch))
              \/ (Ch = (IF R.kind = "hex" THEN "p" ELSE "e") /\ (st \in {"int", "frac"} \/ (st = "point" /\ nint > 0)))
              \/ (st = "emark" /\ Ch \in {"-", "+"})
              \/ (st \in {"emark", "esign", "exp"} /\ IsDigit(Ch)))
         /\ st' = "bad" /\ i' = Len(R.sp) + 1
         /\ Keep(<<l, neg, ds, nfrac, nint, lead0, eneg, ev, bad>>)

\* does the machine accept what it read?  (Python: no `01`, a point needs a digit on one side, `e` needs digits)
Accepted ==
    /\ st \in {"int", "point", "frac", "exp"}
    /\ (st = "point" => nint > 0)
    /\ (st = "int" => ~lead0 \/ ds = <<>> \/ R.kind = "hex")   \* 007 is not an integer literal (0, 00 are; 007.5 and 007e1 are floats)
    /\ nint + nfrac > 0

RECURSIVE StripT(_)
StripT(s) == IF s # <<>> /\ s[Len(s)] = 0 THEN StripT(SubSeq(s, 1, Len(s) - 1)) ELSE s
TrailZ(s) == Len(s) - Len(StripT(s))
\* decimal normal form of the spelling
NormDec == LET d == StripT(ds) IN
           [neg |-> neg, D |-> d, E |-> IF d = <<>> THEN 0 ELSE (IF eneg = 1 THEN -ev ELSE ev) - nfrac + TrailZ(ds)]
\* binary normal form of a hex spelling: bit sequence and power of two
RECURSIVE ToBits(_, _)
ToBits(s, k) == IF k > Len(s) THEN <<>> ELSE Bits4(s[k]) \o ToBits(s, k + 1)
RECURSIVE StripL(_)
StripL(s) == IF s # <<>> /\ s[1] = 0 THEN StripL(SubSeq(s, 2, Len(s))) ELSE s
NormHex == LET b == ToBits(ds, 1)  t == StripT(b)
           IN  [neg |-> neg, D |-> StripL(t),
                E |-> IF t = <<>> THEN 0 ELSE (IF eneg = 1 THEN -ev ELSE ev) - 4 * nfrac + TrailZ(b)]

LitVerdict ==
    IF R.kind \in {"dec", "hex"} THEN
        IF Accepted # R.py_ok THEN "lexer-language"
        ELSE IF ~R.py_ok THEN "ok"
        ELSE IF "err" \in DOMAIN R.out THEN "front-end-raises"
        ELSE LET nf == IF R.kind = "hex" THEN NormHex ELSE NormDec
             IN  IF nf.D # R.out.D \/ (nf.D # <<>> /\ nf.E # R.out.E) THEN "value"
                 ELSE IF nf.neg # R.out.neg THEN (IF nf.D = <<>> THEN "zero-sign" ELSE "value") ELSE "ok"
    ELSE IF R.kind = "ratio" THEN
        \* rational(p, q) / digits(m, e, b): expected exact value given as a small fraction, result likewise
        (IF "err" \in DOMAIN R.out THEN "front-end-raises"
         ELSE IF Same(Fin(R.exp.s, R.exp.n, R.exp.d), Canon(R.out.val)) THEN "ok" ELSE "value")
    ELSE \* "round": fp.round(<literal>) under a narrow context equals the value rounded once
        (IF "err" \in DOMAIN R.out THEN "ok"
         ELSE ValueVerdict(R.ctx, Canon(R.x), R.out))

Finish ==
    /\ l <= Len(Recs) /\ i > Len(R.sp)
    /\ LET v == LitVerdict IN
       /\ IF v = "ok" THEN TRUE ELSE PrintT(<<"MM", R.tid, v>>)
       /\ bad' = IF v = "ok" THEN bad ELSE bad + 1
    /\ l' = l + 1 /\ Reset

Next == Sign \/ IntDigit \/ Point \/ FracDigit \/ ExpMark \/ ExpSign \/ ExpDigit \/ Stuck \/ Finish
Spec == Init /\ [][Next]_lvars
Done == IF l = Len(Recs) + 1 /\ i = 1 THEN PrintT(<<"DONE", Len(Recs), bad>>) ELSE TRUE
TypeOK == st \in {"start", "start0", "int", "point", "frac", "emark", "esign", "exp", "bad"}
=============================================================================
