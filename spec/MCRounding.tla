----------------------------- MODULE MCRounding -----------------------------
(***************************************************************************)
(* Design-level model of the rounding kernel (no code involved).           *)
(*                                                                         *)
(* The operational machine transcribes RealFloat.round/_round_at step by   *)
(* step on the encoding (s, c, exp): Params, FastPath, Split, Decide,      *)
(* Increment, Carry, Done.  TLC checks, for every small format, mode and   *)
(* operand encoding, that the machine's result                             *)
(*   (1) equals the arithmetic definition Rounding!RoundU, and             *)
(*   (2) is the neighbour prescribed by the declarative, set-based         *)
(*       definition DeclRound (nearest members of an explicitly enumerated *)
(*       value set, chosen by the mode's defining sentence).               *)
(* RoundU is the oracle the trace specifications use against the code, so  *)
(* this is what certifies the oracle.                                      *)
(***************************************************************************)
EXTENDS Rounding

CONSTANTS PS,        \* precisions, 0 = no precision bound (fixed point)
          NS,        \* smallest digit positions nmin; NoN = no bound
          NoN, CMAX, ELO, EHI,
          MUT        \* 0 = faithful; 1 = deliberately wrong tie rule (vacuity guard, must be caught)

\* cfg files cannot spell negative numbers
NSdef == {99, -3, -1, 0}
ELOdef == -3

VARIABLES pc, f, rm, s, c, exp,        \* the operand and configuration
          n, kc, kexp, lc, lexp,       \* kept / lost
          inc, inexact, carry

vars == <<pc, f, rm, s, c, exp, n, kc, kexp, lc, lexp, inc, inexact, carry>>

Formats == {[hasP |-> p # 0, p |-> p, hasN |-> nn # NoN, nmin |-> IF nn = NoN THEN 0 ELSE nn] :
              p \in PS, nn \in NS} \ {[hasP |-> FALSE, p |-> 0, hasN |-> FALSE, nmin |-> 0]}

Init ==
    /\ pc = "params"
    /\ f \in Formats /\ rm \in Modes /\ s \in {0, 1}
    /\ c \in 1..CMAX /\ exp \in ELO..EHI
    /\ n = 0 /\ kc = 0 /\ kexp = 0 /\ lc = 0 /\ lexp = 0
    /\ inc = FALSE /\ inexact = FALSE /\ carry = FALSE

XE == exp + BitLen(c) - 1              \* RealFloat.e

\* RealFloat._round_params
Params ==
    /\ pc = "params"
    /\ n' = IF ~f.hasP THEN f.nmin
            ELSE IF ~f.hasN THEN XE - f.p ELSE Max(f.nmin, XE - f.p)
    /\ pc' = "path"
    /\ UNCHANGED <<f, rm, s, c, exp, kc, kexp, lc, lexp, inc, inexact, carry>>

\* "fast path: definitely representable values"
FastPath ==
    /\ pc = "path" /\ exp > n /\ (~f.hasP \/ BitLen(c) <= f.p)
    /\ kc' = c /\ kexp' = exp /\ pc' = "done"
    /\ UNCHANGED <<f, rm, s, c, exp, n, lc, lexp, inc, inexact, carry>>

\* RealFloat.split(n), its three non-zero arms
Split ==
    /\ pc = "path" /\ ~(exp > n /\ (~f.hasP \/ BitLen(c) <= f.p))
    /\ IF n >= XE THEN kc' = 0 /\ kexp' = n + 1 /\ lc' = c /\ lexp' = exp
       ELSE IF n < exp THEN kc' = c /\ kexp' = exp /\ lc' = 0 /\ lexp' = n
       ELSE LET plo == n + 1 - exp
            IN  kc' = c \div Pow2(plo) /\ kexp' = exp + plo /\ lc' = c % Pow2(plo) /\ lexp' = exp
    /\ pc' = "lost"
    /\ UNCHANGED <<f, rm, s, c, exp, n, inc, inexact, carry>>

Exact ==
    /\ pc = "lost" /\ lc = 0 /\ pc' = "done"
    /\ UNCHANGED <<f, rm, s, c, exp, n, kc, kexp, lc, lexp, inc, inexact, carry>>

\* RoundingMode.to_direction(s) : <<nearest, direction>>
Dir == CASE rm = "RNE" -> <<TRUE, "RTE">>  [] rm = "RNA" -> <<TRUE, "RAZ">>
         [] rm = "RTP" -> <<FALSE, IF s = 1 THEN "RTZ" ELSE "RAZ">>
         [] rm = "RTN" -> <<FALSE, IF s = 1 THEN "RAZ" ELSE "RTZ">>
         [] rm = "RTZ" -> <<FALSE, "RTZ">>  [] rm = "RAZ" -> <<FALSE, "RAZ">>
         [] rm = "RTO" -> <<FALSE, "RTO">>  [] rm = "RTE" -> <<FALSE, "RTE">>
\* RealFloat._round_increment_direction
IncDir(d) == CASE d = "RTZ" -> FALSE [] d = "RAZ" -> TRUE
               [] d = "RTE" -> (IF MUT = 1 THEN kc % 2 = 0 ELSE kc % 2 # 0) [] d = "RTO" -> kc % 2 = 0
\* RealFloat._round_increment
Decide ==
    /\ pc = "lost" /\ lc # 0
    /\ inexact' = TRUE
    /\ LET lp   == BitLen(lc)
           le   == lexp + lp - 1
           half == IF le = n THEN lc \div Pow2(lp - 1) # 0 ELSE FALSE
           low  == IF le = n THEN lc % Pow2(lp - 1) # 0 ELSE TRUE
       IN  inc' = IF Dir[1] THEN (IF half THEN (IF low THEN TRUE ELSE IncDir(Dir[2])) ELSE FALSE)
                  ELSE IncDir(Dir[2])
    /\ pc' = "inc"
    /\ UNCHANGED <<f, rm, s, c, exp, n, kc, kexp, lc, lexp, carry>>

NoIncrement ==
    /\ pc = "inc" /\ ~inc /\ pc' = "done"
    /\ UNCHANGED <<f, rm, s, c, exp, n, kc, kexp, lc, lexp, inc, inexact, carry>>

Increment ==
    /\ pc = "inc" /\ inc
    /\ kc' = kc + 1 /\ pc' = "carry"
    /\ UNCHANGED <<f, rm, s, c, exp, n, kexp, lc, lexp, inc, inexact, carry>>

Carry ==
    /\ pc = "carry" /\ f.hasP /\ BitLen(kc) > f.p
    /\ kc' = kc \div 2 /\ kexp' = kexp + 1 /\ carry' = TRUE /\ pc' = "done"
    /\ UNCHANGED <<f, rm, s, c, exp, n, lc, lexp, inc, inexact>>

NoCarry ==
    /\ pc = "carry" /\ ~(f.hasP /\ BitLen(kc) > f.p) /\ pc' = "done"
    /\ UNCHANGED <<f, rm, s, c, exp, n, kc, kexp, lc, lexp, inc, inexact, carry>>

Next == Params \/ FastPath \/ Split \/ Exact \/ Decide \/ NoIncrement \/ Increment \/ Carry \/ NoCarry
Spec == Init /\ [][Next]_vars

-----------------------------------------------------------------------------
X      == Dy(s, c, exp)
Result == Dy(s, kc, kexp)

\* (1) operational = arithmetic
OpEqArith ==
    pc = "done" =>
        LET r == RoundU(f, rm, X) IN Same(r.val, Result) /\ r.inexact = inexact

\* (2) declarative: enumerate the members of the format near X explicitly
Members ==
    LET qlo == (IF f.hasN THEN f.nmin + 1 ELSE ELO - 8)
        qhi == EHI + BitLen(CMAX) + 1
        cs  == IF f.hasP THEN 0..(Pow2(f.p) - 1) ELSE 0..(2 * CMAX + 2)
    IN  {Dy(0, cc, q) : cc \in cs, q \in Max(qlo, ELO - 8)..qhi}
\* the neighbour of |X| that mode rm prescribes, given the nearest members lo <= |X| <= hi
Prescribed(lo, hi, ax) ==
    LET even(v) == RDiv(v, RSub(hi, lo)).n % 2 = 0        \* v is an even multiple of the gap
        nearer  == Cmp(RSub(ax, lo), RSub(hi, ax))        \* -1: lo nearer, 1: hi nearer, 0: tie
    IN  CASE rm = "RNE" -> IF nearer < 0 THEN lo ELSE IF nearer > 0 THEN hi
                           ELSE IF even(lo) THEN lo ELSE hi
          [] rm = "RNA" -> IF nearer < 0 THEN lo ELSE hi
          [] rm = "RTP" -> IF s = 0 THEN hi ELSE lo          \* toward +infinity
          [] rm = "RTN" -> IF s = 0 THEN lo ELSE hi          \* toward -infinity
          [] rm = "RTZ" -> lo
          [] rm = "RAZ" -> hi
          [] rm = "RTO" -> IF even(lo) THEN hi ELSE lo
          [] rm = "RTE" -> IF even(lo) THEN lo ELSE hi
OpEqDecl ==
    pc = "done" =>
        LET ax    == RAbs(X)
            mem   == Members
            below == {v \in mem : Le(v, ax)}
            above == {v \in mem : Le(ax, v)}
            lo    == CHOOSE v \in below : \A w \in below : Le(w, v)
            hi    == CHOOSE v \in above : \A w \in above : Le(v, w)
        IN  IF Same(lo, hi) THEN SameMag(lo, Result) /\ ~inexact
            ELSE SameMag(Prescribed(lo, hi, ax), Result) /\ inexact

\* the result is a member of the format, and rounding it again changes nothing
ResultInFormat == pc = "done" => (kc = 0 \/ InCore([hasP |-> f.hasP, p |-> f.p, hasN |-> f.hasN, nmin |-> f.nmin, hasMax |-> FALSE, negzero |-> TRUE], Result))
Idempotent == pc = "done" /\ kc # 0 => Same(RoundU(f, rm, Result).val, Result) /\ ~RoundU(f, rm, Result).inexact
\* carry only produces a power of two
CarryPow2 == pc = "done" /\ carry => kc = Pow2(f.p - 1)
=============================================================================
