------------------------------ MODULE AbsFormat ------------------------------
(***************************************************************************)
(* C14: what a format bound MEANS, stated declaratively, and the soundness *)
(* conditions of the abstract arithmetic behind format inference.          *)
(*                                                                         *)
(* A format bound (harness/fmt_export.py) is one of                        *)
(*   [top]                      any number (REAL, or not expressible here) *)
(*   [none]                     not a number (booleans, contexts)          *)
(*   [set |-> <<v1, ..>>]       exactly these values (sign of zero counts) *)
(*   [af, prec, hasexp, exp, pb, nb, pinf, ninf, nan, nz]                   *)
(*       the abstract number system of format_infer/format.py:             *)
(*       finite members are +0, -0 when nz, and the numbers c * 2^e with   *)
(*       e >= exp (when hasexp), c < 2^prec (prec = 0: unbounded), between *)
(*       nb and pb (a bound of kind "inf" is no bound); pinf/ninf/nan say  *)
(*       which specials are members                                        *)
(*   [tuple |-> <<F1, ..>>]  [list |-> F]                                  *)
(*                                                                         *)
(* MemF is membership.  AbsVerdict judges one recorded answer of the real  *)
(* abstract arithmetic against every pair of members drawn from a fixed    *)
(* candidate grid: op(a, b) must contain the EXACT result (Arith!Exact,    *)
(* IEEE special-value and signed-zero rules) for every choice of members;  *)
(* a <= b reported true must be inclusion; a rounding reported to be an    *)
(* identity must return every member unchanged (Rounding!Expect); the      *)
(* abstraction of a context's format must contain everything the context   *)
(* represents.                                                             *)
(***************************************************************************)
EXTENDS Arith

RECURSIVE OddPart(_), TZ(_)
OddPart(n) == IF n % 2 = 1 THEN n ELSE OddPart(n \div 2)
TZ(n) == IF n % 2 = 1 THEN 0 ELSE 1 + TZ(n \div 2)

IsInfB(b) == b.k = "inf"

MemAF(v, F) ==
    IF v.k = "nan" THEN F.nan
    ELSE IF v.k = "inf" THEN (IF v.s = 0 THEN F.pinf ELSE F.ninf)
    ELSE IF v.n = 0 THEN (v.s = 0 \/ F.nz)
    ELSE /\ IsDyadic(v)
         /\ (IsInfB(F.pb) \/ Le(v, Canon(F.pb)))
         /\ (IsInfB(F.nb) \/ Le(Canon(F.nb), v))
         /\ LET t == TZ(v.n) - (BitLen(v.d) - 1)          \* v = odd * 2^t
            IN  /\ (~F.hasexp \/ t >= F.exp)
                /\ (F.prec = 0 \/ BitLen(OddPart(v.n)) <= F.prec)

\* scalar membership
MemF(v, F) ==
    IF "top" \in DOMAIN F THEN TRUE
    ELSE IF "set" \in DOMAIN F THEN \E i \in 1..Len(F.set) : Same(v, Canon(F.set[i]))
    ELSE IF "af" \in DOMAIN F THEN MemAF(v, F)
    ELSE FALSE

\* the candidate grid members are drawn from
Cand == {Fin(s, n, d) : s \in {0, 1}, n \in 0..12, d \in {1, 2, 4}} \cup {Fin(s, n, 1) : s \in {0, 1}, n \in {15, 16, 24, 31, 32}}
        \cup {Inf(0), Inf(1), NaN}
Mem(F) == IF "set" \in DOMAIN F THEN {Canon(F.set[i]) : i \in 1..Len(F.set)} ELSE {v \in Cand : MemF(v, F)}

Declined(F) == "none" \in DOMAIN F
SmallV(v) == v.k # "fin" \/ (v.n < 1000000 /\ v.d < 65536)

Rep(c, x) == LET e == Expect(c, x, FALSE, 0) IN e.errs = {} /\ e.vals # {} /\ \A v \in e.vals : Same(v, x)

AbsVerdict(r) ==
    CASE r.t = "op2" ->
           IF Declined(r.r) THEN "ok"
           ELSE LET missed == UNION {{c.v : c \in {d \in Exact(r.op, <<x, y>>, "RNE", 0) : ~MemF(d.v, r.r)}} : x \in Mem(r.a), y \in Mem(r.b)}
                IN  IF missed = {} THEN "ok"
                    ELSE IF \A v \in missed : IsZero(v) /\ v.s = 1 THEN "abstract-" \o r.op \o "-misses-negative-zero"
                    ELSE "abstract-" \o r.op \o "-misses-a-result"
      [] r.t = "op1" ->
           IF Declined(r.r) THEN "ok"
           ELSE LET missed == UNION {{c.v : c \in {d \in Exact(r.op, <<x>>, "RNE", 0) : ~MemF(d.v, r.r)}} : x \in Mem(r.a)}
                IN  IF missed = {} THEN "ok"
                    ELSE IF \A v \in missed : IsZero(v) /\ v.s = 1 THEN "abstract-" \o r.op \o "-misses-negative-zero"
                    ELSE "abstract-" \o r.op \o "-misses-a-result"
      [] r.t = "or" -> IF \E x \in Mem(r.a) \cup Mem(r.b) : ~MemF(x, r.r) THEN "union-misses-a-member" ELSE "ok"
      [] r.t = "and" -> IF \E x \in Mem(r.a) \cap Mem(r.b) : ~MemF(x, r.r) THEN "intersection-misses-a-member" ELSE "ok"
      [] r.t = "le" -> IF r.res /\ \E x \in Mem(r.a) : ~MemF(x, r.b) THEN "containment-claimed-but-false" ELSE "ok"
      [] r.t = "ident" ->
           \* (the abstraction counts +0 a member of every format by convention; the exponential family has no zero)
           IF r.res /\ \E x \in Mem(r.a) : ~Rep(r.ctx, x) /\ ~(r.ctx.fam = "exp" /\ IsZero(x)) THEN "identity-claimed-but-rounding-changes-a-member" ELSE "ok"
      [] r.t = "from" -> IF \E x \in Cand : Rep(r.ctx, x) /\ ~MemF(x, r.r) THEN "abstraction-misses-a-representable-value" ELSE "ok"
      [] OTHER -> "bad-record"
=============================================================================
