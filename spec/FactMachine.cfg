SPECIFICATION FSpec
INVARIANT TerminalOrRunning
CHECK_DEADLOCK FALSE
