------------------------------ MODULE FactMachine ------------------------------
(***************************************************************************)
(* C13: what the static analyses report, checked on every execution.       *)
(*                                                                         *)
(* The abstract machine runs the exported REAL AST on every recorded       *)
(* argument vector.  The harness attaches to the statements of the main    *)
(* function what the real analyses said (TypeInfer, ArraySizeInfer,        *)
(* ValueClassInfer, PartialEval, DefineUse / ReachingDefs, Alias):         *)
(*   Assign:   ty   inferred type of the defined variable                  *)
(*             sz   inferred list sizes (n: concrete length or -1)          *)
(*             eqp  parameters reported to have the same length            *)
(*             vc   value classes reported for the definition              *)
(*             pe   the constant the right-hand side is reported to be     *)
(*   any stmt: uses <<[n, ds]>>: for each variable the statement reads,    *)
(*             the definition sites listed as reaching that read           *)
(*   program:  alias  pairs of names that may refer to the same list       *)
(* and this module checks each fact against the machine's state: FactStep  *)
(* is conjoined to every transition.  The extra variable dsite remembers,  *)
(* for each name of the main frame, the statement that last defined it.    *)
(***************************************************************************)
EXTENDS MCMachine

VARIABLE dsite
fvars == <<mvars, dsite>>

SeqSet(s) == {s[i] : i \in 1..Len(s)}
RECURSIVE TNames(_)
TNames(t) == IF t.k = "name" THEN {t.n}
             ELSE IF t.k = "tuple" THEN UNION {TNames(t.ts[i]) : i \in 1..Len(t.ts)} ELSE {}

Main == Fn(P.main)
FInit == Init /\ dsite = [n \in SeqSet(Progs[pid].funcs[Progs[pid].main].params) |-> -2]

InMain == status = "run" /\ Len(frames) = 1 /\ ~AtEnd
Say(clause, what) == PrintT(<<"MM", P.pid, inp, clause, what>>)

\* --- which statement last defined each name
DefUpd ==
    IF InMain /\ status' = "run" /\ Len(frames') = 1 /\ Cur.k \in {"Assign", "With"}
    THEN LET ns == TNames(Cur.t) IN dsite' = [n \in DOMAIN dsite \cup ns |-> IF n \in ns THEN Cur.id ELSE dsite[n]]
    ELSE IF InMain /\ status' = "run" /\ Cur.k = "For" /\ Len(frames'[1].kont) > Len(frames[1].kont)
    THEN LET ns == TNames(Cur.t) IN dsite' = [n \in DOMAIN dsite \cup ns |-> IF n \in ns THEN Cur.id ELSE dsite[n]]
    ELSE IF status = "run" /\ Len(frames) = 1 /\ AtEnd /\ Len(Top.kont) > 1 /\ K.kind = "for" /\ K.pos < K.n /\ status' = "run"
    THEN \* the loop goes round: the target is bound again, by the for statement
         LET fr == Pop(Top)
             parent == Blk(Top.fn, fr.kont[Len(fr.kont)].b)[fr.kont[Len(fr.kont)].i]
             ns == TNames(parent.t)
         IN  dsite' = [n \in DOMAIN dsite \cup ns |-> IF n \in ns THEN parent.id ELSE dsite[n]]
    ELSE IF InMain /\ status' = "run" /\ Cur.k = "IndexedAssign"
    THEN dsite' = [n \in DOMAIN dsite \cup {Cur.v} |-> IF n = Cur.v THEN Cur.id ELSE dsite[n]]
    ELSE dsite' = dsite

\* --- reaching definitions: the definition a read observes is one of those listed for it
UseCheck ==
    IF InMain /\ "uses" \in DOMAIN Cur
    THEN \A i \in 1..Len(Cur.uses) :
            LET u == Cur.uses[i] IN
            IF u.n \in DOMAIN dsite /\ dsite[u.n] \notin SeqSet(u.ds)
            THEN Say("read-observes-a-definition-not-listed-as-reaching", u.n) ELSE TRUE
    ELSE TRUE

\* --- facts about the value an assignment binds
RECURSIVE ShapeOK(_, _, _), SizeOK(_, _, _)
ShapeOK(v, st, T) ==
    CASE T.t = "any" \/ v.k = "uninit" -> TRUE          \* an element of fp.empty that was never written holds no value of any type yet
      [] T.t = "real" -> IsNum(v) \/ v.k = "big"
      [] T.t = "bool" -> v.k = "bool"
      [] T.t = "ctx" -> v.k = "ctx"
      [] T.t = "list" -> v.k = "ref" /\ \A i \in 1..Len(st[v.loc]) : ShapeOK(st[v.loc][i], st, T.e)
      [] T.t = "tuple" -> v.k = "tup" /\ Len(v.v) = Len(T.es) /\ \A i \in 1..Len(T.es) : ShapeOK(v.v[i], st, T.es[i])
      [] OTHER -> TRUE
SizeOK(v, st, S) ==
    IF "none" \in DOMAIN S THEN TRUE
    ELSE IF "list" \in DOMAIN S THEN
        v.k # "ref" \/ ((S.list.n = -1 \/ Len(st[v.loc]) = S.list.n) /\ \A i \in 1..Len(st[v.loc]) : SizeOK(st[v.loc][i], st, S.list.e))
    ELSE IF "tuple" \in DOMAIN S THEN
        v.k # "tup" \/ Len(v.v) # Len(S.tuple) \/ \A i \in 1..Len(S.tuple) : SizeOK(v.v[i], st, S.tuple[i])
    ELSE TRUE
ClassOf(v) == IF v.k = "nan" THEN "nan" ELSE IF v.k = "inf" THEN "inf" ELSE IF v.n = 0 THEN "zero" ELSE "fin"

AssignFacts ==
    IF InMain /\ Cur.k = "Assign" /\ Cur.t.k = "name" /\ "ty" \in DOMAIN Cur /\ status' = "run" /\ Len(frames') = 1
       /\ frames'[1].kont # frames[1].kont
    THEN LET v == frames'[1].env[Cur.t.n]
             env == frames'[1].env
         IN  /\ IF ShapeOK(v, store', Cur.ty) THEN TRUE ELSE Say("value-does-not-have-the-inferred-type", Cur.t.n)
             /\ IF SizeOK(v, store', Cur.sz) THEN TRUE ELSE Say("list-does-not-have-the-inferred-length", Cur.t.n)
             /\ IF v.k = "ref" /\ \E i \in 1..Len(Cur.eqp) :
                      Cur.eqp[i] \in DOMAIN env /\ env[Cur.eqp[i]].k = "ref" /\ Len(store'[env[Cur.eqp[i]].loc]) # Len(store'[v.loc])
                THEN Say("lists-reported-equal-length-differ", Cur.t.n) ELSE TRUE
             /\ IF IsNum(v) /\ "top" \notin SeqSet(Cur.vc) /\ ClassOf(v) \notin SeqSet(Cur.vc)
                THEN Say("value-outside-the-reported-classes", Cur.t.n) ELSE TRUE
             /\ IF "pe" \in DOMAIN Cur /\ ~DeepSame(Deep(v, store'), Cur.pe)
                THEN Say("expression-reported-constant-evaluates-differently", Cur.t.n) ELSE TRUE
    ELSE TRUE

\* --- aliasing: two names of the main frame that hold the same list are reported as possibly aliased
AliasCheck ==
    IF status' = "run" /\ Len(frames') = 1 /\ "alias" \in DOMAIN P
    THEN LET env == frames'[1].env
             refs == {n \in DOMAIN env : env[n].k = "ref"}
         IN  \A a \in refs : \A b \in refs :
                IF a # b /\ env[a].loc = env[b].loc /\ <<a, b>> \notin SeqSet(P.alias) /\ <<b, a>> \notin SeqSet(P.alias)
                   /\ (frames'[1].env # frames[1].env)
                THEN Say("same-list-not-reported-as-aliased", a \o "," \o b) ELSE TRUE
    ELSE TRUE

\* --- facts about the parameters (program field pfacts: <<[n, ty, sz, vc]>>), checked on the first step of a run
ParamFacts ==
    IF status = "run" /\ steps = 0 /\ Len(frames) = 1 /\ "pfacts" \in DOMAIN P
    THEN \A i \in 1..Len(P.pfacts) :
            LET f == P.pfacts[i]
                v == frames[1].env[f.n]
            IN  /\ IF ShapeOK(v, store, f.ty) THEN TRUE ELSE Say("value-does-not-have-the-inferred-type", f.n)
                /\ IF SizeOK(v, store, f.sz) THEN TRUE ELSE Say("list-does-not-have-the-inferred-length", f.n)
                /\ IF IsNum(v) /\ "top" \notin SeqSet(f.vc) /\ ClassOf(v) \notin SeqSet(f.vc)
                   THEN Say("value-outside-the-reported-classes", f.n) ELSE TRUE
    ELSE TRUE

FactStep == UseCheck /\ AssignFacts /\ ParamFacts /\ AliasCheck /\ DefUpd
FNext == Next /\ FactStep
FSpec == FInit /\ [][FNext]_fvars
=============================================================================
