SPECIFICATION Spec
CONSTANTS
  MUT = "none"
  SCRIPTS = {1, 2, 3}
INVARIANT SeqEquivalent
INVARIANT ArgsUntouched
INVARIANT NoSharedStructure
INVARIANT CacheByIdentity
INVARIANT MpfrScoped
CHECK_DEADLOCK FALSE
