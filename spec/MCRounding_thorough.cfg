SPECIFICATION Spec
CONSTANTS
  PS = {0, 1, 2, 3, 4}
  NS <- NSdef
  NoN = 99
  MUT = 0
  CMAX = 63
  ELO <- ELOdef
  EHI = 2
INVARIANT OpEqArith
INVARIANT OpEqDecl
INVARIANT ResultInFormat
INVARIANT Idempotent
INVARIANT CarryPow2
CHECK_DEADLOCK FALSE
