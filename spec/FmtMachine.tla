------------------------------ MODULE FmtMachine ------------------------------
(***************************************************************************)
(* C14, program level: the abstract machine runs the exported program on   *)
(* every recorded argument vector while the format bounds the REAL         *)
(* FormatInfer.analyze reported (attached by the harness to the assignment  *)
(* and return statements they belong to, field fmt) are checked at every   *)
(* step: the value an assignment binds, and the value a return hands back,  *)
(* must be members (AbsFormat!MemF: precision, quantum, bounds, sign of     *)
(* zero, infinities, NaN; element-wise for lists and tuples) of the        *)
(* inferred bound.  The run's outcome is judged against the real           *)
(* interpreter as in MCMachine.                                            *)
(***************************************************************************)
EXTENDS MCMachine, AbsFormat

NoClaim(F) == "top" \in DOMAIN F \/ "none" \in DOMAIN F

RECURSIVE MemDeep(_, _, _), NZ(_)
MemDeep(v, st, F) ==
    IF NoClaim(F) THEN TRUE
    ELSE IF v.k = "ref" THEN "list" \in DOMAIN F /\ \A i \in 1..Len(st[v.loc]) : MemDeep(st[v.loc][i], st, F.list)
    ELSE IF v.k = "tup" THEN "tuple" \in DOMAIN F /\ Len(F.tuple) = Len(v.v) /\ \A i \in 1..Len(v.v) : MemDeep(v.v[i], st, F.tuple[i])
    ELSE IF IsNum(v) THEN MemF(v, F)
    ELSE TRUE
\* the same for a store-free (returned) value
RECURSIVE MemDV(_, _)
MemDV(v, F) ==
    IF NoClaim(F) THEN TRUE
    ELSE IF v.k = "list" THEN "list" \in DOMAIN F /\ \A i \in 1..Len(v.v) : MemDV(v.v[i], F.list)
    ELSE IF v.k = "tuple" THEN "tuple" \in DOMAIN F /\ Len(F.tuple) = Len(v.v) /\ \A i \in 1..Len(v.v) : MemDV(v.v[i], F.tuple[i])
    ELSE IF IsNum(v) THEN MemF(v, F)
    ELSE TRUE

\* the same with the negative zero counted a member of every numeric bound (to name what exactly is missing)
NZ(F) == IF "af" \in DOMAIN F THEN [F EXCEPT !.nz = TRUE]
         ELSE IF "set" \in DOMAIN F THEN [set |-> Append(F.set, Zero(1))]
         ELSE IF "list" \in DOMAIN F THEN [list |-> NZ(F.list)]
         ELSE IF "tuple" \in DOMAIN F THEN [tuple |-> [i \in 1..Len(F.tuple) |-> NZ(F.tuple[i])]]
         ELSE F
Clause(okz) == IF okz THEN "inferred-format-misses-negative-zero" ELSE "inferred-format-misses-value"

FmtCheck ==
    IF status = "run" /\ ~AtEnd /\ Len(frames) = 1 /\ Cur.k = "Assign" /\ "fmt" \in DOMAIN Cur /\ Cur.t.k = "name"
       /\ status' = "run" /\ Len(frames') = 1 /\ frames'[1].kont # frames[1].kont
    THEN LET v == frames'[1].env[Cur.t.n]
         IN  IF MemDeep(v, store', Cur.fmt) THEN TRUE ELSE PrintT(<<"MM", P.pid, inp, Clause(MemDeep(v, store', NZ(Cur.fmt))), ToString(Cur.id)>>)
    ELSE IF status = "run" /\ ~AtEnd /\ Len(frames) = 1 /\ Cur.k = "Return" /\ "fmt" \in DOMAIN Cur /\ status' = "done"
    THEN IF MemDV(result', Cur.fmt) THEN TRUE ELSE PrintT(<<"MM", P.pid, inp, Clause(MemDV(result', NZ(Cur.fmt))), ToString(Cur.id)>>)
    ELSE TRUE

FNext == Next /\ FmtCheck
FSpec == Init /\ [][FNext]_mvars
=============================================================================
