---------------------------- MODULE RuntimeSched ----------------------------
(* Behaviours of Runtime as thread schedules: the history variable sched records which thread took each step; TLC -simulate
   prints every completed behaviour's schedule, which harness/props/c18.py replays on real threads (one model step = the
   thread advances to its next observable point). *)
EXTENDS Runtime
VARIABLE sched
svars == <<vars, sched>>
SInit == Init /\ sched = <<>>
SNext == \E t \in Threads : Step(t) /\ sched' = Append(sched, t)
SSpec == SInit /\ [][SNext]_svars
Emit == IF Done THEN PrintT("SCHED " \o ToString(sched)) ELSE TRUE
=============================================================================
