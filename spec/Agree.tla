-------------------------------- MODULE Agree --------------------------------
(***************************************************************************)
(* C11: what "agrees bit for bit" means, and mode V over recorded pairs.   *)
(* A value is a number (Num record; a number too wide for TLC travels as a *)
(* token [k |-> "big", s, n, d] whose fields are the sign, significand and *)
(* exponent as text), a bool, a list or a tuple.  Two values agree when    *)
(* they have the same shape, list lengths, booleans, and numbers with the  *)
(* same bits: the sign of zero counts, NaN agrees with NaN.                *)
(*   r: [a (the interpreter's result), b (the compiled code's result)]     *)
(*   either may be [err |-> class] instead of [val |-> value]              *)
(***************************************************************************)
EXTENDS Num, Json, IOUtils

RECURSIVE Agrees(_, _)
Agrees(a, b) ==
    IF a.k \in {"list", "tuple"} THEN
        b.k = a.k /\ Len(a.v) = Len(b.v) /\ \A i \in 1..Len(a.v) : Agrees(a.v[i], b.v[i])
    ELSE IF a.k = "bool" THEN b.k = "bool" /\ a.b = b.b
    ELSE IF a.k = "uninit" THEN b.k = "uninit"            \* an element of fp.empty never written
    ELSE IF a.k = "big" THEN b.k = "big" /\ a.s = b.s /\ a.n = b.n /\ a.d = b.d
    ELSE IF a.k \in {"fin", "inf", "nan"} THEN b.k \in {"fin", "inf", "nan"} /\ Same(Canon(a), Canon(b))
    ELSE FALSE

PairVerdict(r) ==
    IF "err" \in DOMAIN r.a THEN "ok"                  \* the interpreter did not return: nothing is promised
    ELSE IF "err" \in DOMAIN r.b THEN "compiled-code-failed"
    ELSE IF Agrees(r.a.val, r.b.val) THEN "ok"
    ELSE "compiled-result-differs"

Recs == ndJsonDeserialize(IOEnv.TRACE_FILE)
VARIABLES l, bad
vars == <<l, bad>>
Init == l = 1 /\ bad = 0
Next ==
    /\ l <= Len(Recs)
    /\ LET r == Recs[l]
           v == PairVerdict(r)
       IN  /\ IF v = "ok" THEN TRUE ELSE PrintT(<<"MM", r.tid, v>>)
           /\ bad' = IF v = "ok" THEN bad ELSE bad + 1
    /\ l' = l + 1
Spec == Init /\ [][Next]_vars
Consumed == TLCGet("stats").diameter - 1 = Len(Recs)
Done == IF l = Len(Recs) + 1 THEN PrintT(<<"DONE", Len(Recs), bad>>) ELSE TRUE
=============================================================================
