SPECIFICATION Spec
CHECK_DEADLOCK FALSE
INVARIANT Done
POSTCONDITION Consumed
