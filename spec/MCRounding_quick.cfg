SPECIFICATION Spec
CONSTANTS
  PS = {0, 1, 2, 3}
  NS <- NSdef
  NoN = 99
  MUT = 0
  CMAX = 15
  ELO <- ELOdef
  EHI = 1
INVARIANT OpEqArith
INVARIANT OpEqDecl
INVARIANT ResultInFormat
INVARIANT Idempotent
INVARIANT CarryPow2
CHECK_DEADLOCK FALSE
