------------------------------- MODULE Runtime -------------------------------
(***************************************************************************)
(* C18: the process-level picture of evaluating FPy functions from Python. *)
(*                                                                         *)
(* Threads execute scripts of calls (function, context, argument).  One    *)
(* call is seven steps, each a place where the code touches state another  *)
(* call could see:                                                         *)
(*   Begin    BytecodeInterpreter.eval is entered                          *)
(*   Lookup   func_cache[func.ast] (compile + insert on a miss)            *)
(*   CopyIn   to_value rebuilds the argument containers                    *)
(*   SetPrec  gmputils._mpfr_call_with_prec enters gmpy2.context(prec=..)  *)
(*   Op       the operation runs (reads code, context, MPFR precision and  *)
(*            its OWN copy of the argument, which it may write)            *)
(*   Restore  the scoped MPFR context is left                              *)
(*   CopyOut  from_value hands the result back                             *)
(* What a call computes is left uninterpreted: its value is the tuple of   *)
(* everything it READ.  The property says this tuple is a function of the  *)
(* call alone (SeqEquivalent), that the caller's cells are never written   *)
(* (ArgsUntouched) and that the result is not one of them                  *)
(* (NoSharedStructure); CacheByIdentity is the mechanism's invariant.      *)
(* MUT selects a deliberately wrong design; each must be rejected:         *)
(*   SharedCtx    the active context lives in shared state                 *)
(*   CacheByName  compiled code is keyed by the function's name            *)
(*   NoCopyIn     arguments are not rebuilt at the boundary                *)
(*   SharedMPFR   MPFR precision is process-wide, not per thread           *)
(*   AliasResult  nothing is rebuilt in either direction                   *)
(***************************************************************************)
EXTENDS Integers, Sequences, FiniteSets, TLC

CONSTANTS MUT, SCRIPTS
Threads == {1, 2}
Funcs == {"f", "g"}                  \* two distinct functions ...
NameOf == [f |-> "n", g |-> "n"]     \* ... with the same name (a transformed copy keeps the name)
Prec == [c1 |-> 10, c2 |-> 20]
ArgCells == {1, 2}
InitHeap == (1 :> 5) @@ (2 :> 7)

Call(fn, cx, a) == [fn |-> fn, ctx |-> cx, arg |-> a]
ScriptSets ==
    << <<  <<Call("f", "c1", 1), Call("g", "c2", 1)>>,  <<Call("g", "c2", 1), Call("f", "c1", 2)>>  >>,
       <<  <<Call("f", "c1", 1), Call("f", "c2", 2)>>,  <<Call("f", "c2", 1), Call("f", "c1", 1)>>  >>,
       <<  <<Call("g", "c1", 2), Call("f", "c1", 2)>>,  <<Call("f", "c2", 2), Call("g", "c2", 2)>>  >> >>

VARIABLES heap, nextc, cache, sharedCtx, mpfrG, mpfr, pc, script, cur, results
vars == <<heap, nextc, cache, sharedCtx, mpfrG, mpfr, pc, script, cur, results>>

NoCall == [fn |-> "", ctx |-> "", arg |-> 0, code |-> "", local |-> 0, saved |-> 0, cseen |-> "", val |-> <<>>]

Init ==
    /\ heap = InitHeap /\ nextc = 3
    /\ cache = <<>>                          \* a function key -> code, as a sequence of pairs
    /\ sharedCtx = "c1" /\ mpfrG = 53 /\ mpfr = [t \in Threads |-> 53]
    /\ pc = [t \in Threads |-> "idle"]
    /\ \E k \in SCRIPTS : script = [t \in Threads |-> ScriptSets[k][t]]
    /\ cur = [t \in Threads |-> NoCall]
    /\ results = [t \in Threads |-> <<>>]

Keys == {cache[i][1] : i \in 1..Len(cache)}
CodeOf(k) == LET i == CHOOSE i \in 1..Len(cache) : cache[i][1] = k IN cache[i][2]
KeyOf(fn) == IF MUT = "CacheByName" THEN NameOf[fn] ELSE fn
Shares == MUT \in {"NoCopyIn", "AliasResult"}

Begin(t) ==
    /\ pc[t] = "idle" /\ script[t] # <<>>
    /\ cur' = [cur EXCEPT ![t] = [NoCall EXCEPT !.fn = Head(script[t]).fn, !.ctx = Head(script[t]).ctx, !.arg = Head(script[t]).arg]]
    /\ sharedCtx' = IF MUT = "SharedCtx" THEN Head(script[t]).ctx ELSE sharedCtx
    /\ pc' = [pc EXCEPT ![t] = "lookup"]
    /\ UNCHANGED <<heap, nextc, cache, mpfrG, mpfr, script, results>>

Lookup(t) ==
    /\ pc[t] = "lookup"
    /\ LET k == KeyOf(cur[t].fn) IN
       IF k \in Keys THEN cache' = cache /\ cur' = [cur EXCEPT ![t].code = CodeOf(k)]
       ELSE cache' = Append(cache, <<k, cur[t].fn>>) /\ cur' = [cur EXCEPT ![t].code = cur[t].fn]
    /\ pc' = [pc EXCEPT ![t] = "copyin"]
    /\ UNCHANGED <<heap, nextc, sharedCtx, mpfrG, mpfr, script, results>>

CopyIn(t) ==
    /\ pc[t] = "copyin"
    /\ IF Shares THEN heap' = heap /\ nextc' = nextc /\ cur' = [cur EXCEPT ![t].local = cur[t].arg]
       ELSE heap' = (nextc :> heap[cur[t].arg]) @@ heap /\ nextc' = nextc + 1 /\ cur' = [cur EXCEPT ![t].local = nextc]
    /\ pc' = [pc EXCEPT ![t] = "setprec"]
    /\ UNCHANGED <<cache, sharedCtx, mpfrG, mpfr, script, results>>

SetPrec(t) ==
    /\ pc[t] = "setprec"
    /\ LET cx == IF MUT = "SharedCtx" THEN sharedCtx ELSE cur[t].ctx IN
       /\ cur' = [cur EXCEPT ![t].cseen = cx, ![t].saved = IF MUT = "SharedMPFR" THEN mpfrG ELSE mpfr[t]]
       /\ IF MUT = "SharedMPFR" THEN mpfrG' = Prec[cx] /\ mpfr' = mpfr ELSE mpfr' = [mpfr EXCEPT ![t] = Prec[cx]] /\ mpfrG' = mpfrG
    /\ pc' = [pc EXCEPT ![t] = "op"]
    /\ UNCHANGED <<heap, nextc, cache, sharedCtx, script, results>>

Op(t) ==
    /\ pc[t] = "op"
    /\ cur' = [cur EXCEPT ![t].val = <<cur[t].code, cur[t].cseen, IF MUT = "SharedMPFR" THEN mpfrG ELSE mpfr[t], heap[cur[t].local]>>]
    \* the function writes the list it was handed (except the one that just returns it)
    /\ heap' = IF MUT = "AliasResult" THEN heap ELSE [heap EXCEPT ![cur[t].local] = @ + 1]
    /\ pc' = [pc EXCEPT ![t] = "restore"]
    /\ UNCHANGED <<nextc, cache, sharedCtx, mpfrG, mpfr, script, results>>

Restore(t) ==
    /\ pc[t] = "restore"
    /\ IF MUT = "SharedMPFR" THEN mpfrG' = cur[t].saved /\ mpfr' = mpfr ELSE mpfr' = [mpfr EXCEPT ![t] = cur[t].saved] /\ mpfrG' = mpfrG
    /\ pc' = [pc EXCEPT ![t] = "copyout"]
    /\ UNCHANGED <<heap, nextc, cache, sharedCtx, script, cur, results>>

CopyOut(t) ==
    /\ pc[t] = "copyout"
    /\ LET cell == IF MUT = "AliasResult" THEN cur[t].local ELSE nextc IN
       /\ results' = [results EXCEPT ![t] = Append(@, [call |-> Head(script[t]), val |-> cur[t].val, cell |-> cell])]
       /\ IF MUT = "AliasResult" THEN heap' = heap /\ nextc' = nextc
          ELSE heap' = (nextc :> heap[cur[t].local]) @@ heap /\ nextc' = nextc + 1
    /\ script' = [script EXCEPT ![t] = Tail(@)]
    /\ pc' = [pc EXCEPT ![t] = "idle"]
    /\ cur' = [cur EXCEPT ![t] = NoCall]
    /\ UNCHANGED <<cache, sharedCtx, mpfrG, mpfr>>

Step(t) == Begin(t) \/ Lookup(t) \/ CopyIn(t) \/ SetPrec(t) \/ Op(t) \/ Restore(t) \/ CopyOut(t)
Next == \E t \in Threads : Step(t)
Spec == Init /\ [][Next]_vars

Expected(c) == <<c.fn, c.ctx, Prec[c.ctx], InitHeap[c.arg]>>
SeqEquivalent == \A t \in Threads : \A i \in 1..Len(results[t]) : results[t][i].val = Expected(results[t][i].call)
ArgsUntouched == \A c \in ArgCells : heap[c] = InitHeap[c]
NoSharedStructure == \A t \in Threads : \A i \in 1..Len(results[t]) : results[t][i].cell \notin ArgCells
CacheByIdentity == \A i \in 1..Len(cache) : cache[i][1] = cache[i][2]
\* MPFR settings are scoped: an idle thread is back at its own default
MpfrScoped == \A t \in Threads : pc[t] \in {"idle", "lookup", "copyin", "setprec"} => mpfr[t] = 53
Done == \A t \in Threads : pc[t] = "idle" /\ script[t] = <<>>
=============================================================================
