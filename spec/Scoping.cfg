SPECIFICATION SSpec
INVARIANT RulesSound
INVARIANT GuideEnforced
CHECK_DEADLOCK FALSE
