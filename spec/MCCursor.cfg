SPECIFICATION Spec
CONSTANTS
  N = 4
  MUT = 0
INVARIANT Lands
CHECK_DEADLOCK FALSE
