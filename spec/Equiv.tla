-------------------------------- MODULE Equiv --------------------------------
(***************************************************************************)
(* Semantic equivalence of a program and its transform (C07, C08, C09).    *)
(* PROG_FILE holds pairs: line 2j-1 the ORIGINAL program, line 2j the real *)
(* output of the transform applied to it (same input vectors; each input   *)
(* of the transformed program carries `out`, what the real interpreter     *)
(* returned when running the real transformed Function).                   *)
(*                                                                         *)
(* One behaviour = the machine runs the original on an input (phase 1),    *)
(* Switch re-initialises it on the transformed program (phase 2), then     *)
(* JudgeEquiv compares:  if the original returns v, then                   *)
(*   (M) the machine on the transformed AST returns v, and                 *)
(*   (G) the real transformed Function returned v (recorded `out`).        *)
(* A transform never makes a returning program raise.                      *)
(***************************************************************************)
EXTENDS FPyMachine

VARIABLES phase, first      \* first: [status, result] of the original run
evars == <<pid, inp, frames, store, ctx, status, result, steps, phase, first>>
MAXSTEPS == 800

RECURSIVE DeepSame(_, _)
DeepSame(a, b) ==
    IF a.k \in {"list", "tuple"} THEN
        b.k = a.k /\ Len(a.v) = Len(b.v) /\ \A i \in 1..Len(a.v) : DeepSame(a.v[i], b.v[i])
    ELSE IF a.k = "bool" THEN b.k = "bool" /\ a.b = b.b
    ELSE IF a.k = "ctx" THEN b.k = "ctx" /\ a.c = b.c
    ELSE IF a.k = "uninit" THEN b.k = "uninit"
    ELSE IF a.k = "big" THEN b.k = "big" /\ a.s = b.s /\ a.n = b.n /\ a.d = b.d
    ELSE IF IsNum(a) THEN b.k \in {"fin", "inf", "nan"} /\ Same(a, Canon(b))
    ELSE FALSE

\* the same, but with the two zeros identified (the sign of an exact cancellation under RTN is open)
RECURSIVE DeepSameZ(_, _)
DeepSameZ(a, b) ==
    IF a.k \in {"list", "tuple"} THEN
        b.k = a.k /\ Len(a.v) = Len(b.v) /\ \A i \in 1..Len(a.v) : DeepSameZ(a.v[i], b.v[i])
    ELSE IF a.k = "bool" THEN b.k = "bool" /\ a.b = b.b
    ELSE IF a.k = "ctx" THEN b.k = "ctx" /\ a.c = b.c
    ELSE IF a.k = "uninit" THEN b.k = "uninit"
    ELSE IF a.k = "big" THEN b.k = "big" /\ a.s = b.s /\ a.n = b.n /\ a.d = b.d
    ELSE IF IsNum(a) THEN b.k \in {"fin", "inf", "nan"} /\ SameVal(a, Canon(b))
    ELSE FALSE

Skippable(e) == e \in {"Unsupported", "OutOfDomain", "Undefined"}

Init == /\ \E j \in 1..(Len(Progs) \div 2) : \E i \in 1..Len(Progs[2 * j - 1].inputs) : InitFor(2 * j - 1, i)
        /\ phase = 1 /\ first = [status |-> "run", result |-> NaN]

Run == /\ phase \in {1, 2} /\ steps <= MAXSTEPS /\ MNext /\ UNCHANGED <<phase, first>>
Timeout == /\ status = "run" /\ steps > MAXSTEPS /\ Fail("OutOfDomain") /\ UNCHANGED <<phase, first>>

Switch ==
    /\ phase = 1 /\ status \in {"done", "err"}
    /\ first' = [status |-> status, result |-> result]
    /\ LET r == InitRec(pid + 1, inp)
       IN  /\ pid' = pid + 1 /\ frames' = r.frames /\ store' = r.store /\ ctx' = r.ctx
    /\ status' = "run" /\ result' = NaN /\ steps' = 0 /\ phase' = 2 /\ UNCHANGED inp

EquivVerdict ==
    LET out == P.inputs[inp].out IN
    IF first.status = "err" THEN "na"                         \* the original does not return on this input
    ELSE IF status = "err" /\ Skippable(result.e) THEN "skip"
    ELSE IF status = "err" THEN "model-raises"
    ELSE IF ~DeepSame(first.result, result) THEN (IF DeepSameZ(first.result, result) THEN "model-value-zero-sign" ELSE "model-value")
    ELSE IF "err" \in DOMAIN out THEN "code-raises"
    ELSE IF ~DeepSame(first.result, out.val) THEN (IF DeepSameZ(first.result, out.val) THEN "code-value-zero-sign" ELSE "code-value")
    ELSE "ok"

JudgeEquiv ==
    /\ phase = 2 /\ status \in {"done", "err"}
    /\ LET v == EquivVerdict IN
       IF v \in {"ok"} THEN TRUE
       ELSE PrintT(<<IF v \in {"skip", "na"} THEN "SKIP" ELSE "MM", P.pid, inp, v,
                     IF status = "err" THEN result.e ELSE IF first.status = "err" THEN first.result.e ELSE "">>)
    /\ phase' = 3 /\ UNCHANGED <<pid, inp, frames, store, ctx, status, result, steps, first>>

Next == Run \/ Timeout \/ Switch \/ JudgeEquiv
Spec == Init /\ [][Next]_evars
TypeOK == phase \in {1, 2, 3}
=============================================================================
