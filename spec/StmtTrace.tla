------------------------------ MODULE StmtTrace ------------------------------
(***************************************************************************)
(* Trace validation of the REAL interpreter at statement grain.            *)
(*                                                                         *)
(* A run (harness/linetrace.py, sys.settrace on the compiled function; no  *)
(* hook in the repository) is the sequence of 'line' events of the         *)
(* outermost frame of the function: the line about to execute, the         *)
(* variables whose value changed since the previous event, the classes of  *)
(* names that hold one and the same list object; and what the call         *)
(* returned.  Consecutive events of one line are one event (comprehension  *)
(* steps).                                                                 *)
(*                                                                         *)
(* A program is the static description of its statements, one per line:   *)
(*   lines[L] = [k, defs, uses, b0, body, cc, ret]                          *)
(*     k     "assign" | "iassign" | "for" | "while" | "if" | "with" |       *)
(*           "return" | "other"                                            *)
(*     defs  <<[n, ty, sz, vc, pe, fmt]>>  names the statement binds with  *)
(*           what the analyses say about the definition                    *)
(*     redef names whose list it stores into (xs[i] = e): the analyses     *)
(*           count that a definition of xs                                 *)
(*     uses  <<[n, ds]>>  names it reads with the lines of the definitions  *)
(*           reported to reach the read (0 = parameter)                     *)
(*     b0    first line of the body (for, while, with; if: the true arm);   *)
(*     body  the lines of a `for` / `with` body                             *)
(*     cc    <<>> or <<b>>: the condition is reported to be the constant b  *)
(*     sc    the line of the innermost enclosing `with` ("0": none);        *)
(*     wt,wc for a `with`: its `as` target and the concrete context the    *)
(*           context-use analysis resolved the block to (<<>>: no claim)   *)
(*     frame TRUE when every call in the statement goes to a function the  *)
(*           purity analysis calls pure (and it is no store xs[i] = e):    *)
(*           such a statement changes only the names it binds              *)
(*     ret   <<>> or <<[pe, fmt]>> facts about the returned expression      *)
(*   params  facts about the parameters;  alias  pairs of names that may   *)
(*   share a list;  names  the statement-level names;  pure  <<>> or <<b>>: *)
(*   what the purity analysis says about the function (a run records in    *)
(*   `mut` whether a list handed in by the caller was changed)              *)
(*                                                                         *)
(* The specification keeps the abstract state the facts speak about: the   *)
(* current environment and, for every name, the line of its last           *)
(* definition.  One step consumes one event: the statement of the previous *)
(* event has run, so the names it binds hold their new values (a `for`     *)
(* binds its target iff control went into the body, an `if`/`while`        *)
(* condition was true iff control went to b0), every fact about them is    *)
(* checked (C13: type shape, static size, value class, constant; C14:      *)
(* AbsFormat!MemF of the inferred bound), the definition sites are updated *)
(* and the reads of the statement about to run are checked against the     *)
(* reaching definitions.  The variable __ctx__ of the compiled code is the  *)
(* active rounding context: the specification keeps the stack of contexts  *)
(* of the enclosing `with` blocks and checks the discipline of C04 on the   *)
(* real run (a block's context is active in all of it, the `as` target is  *)
(* that context, the enclosing context is back after the block, the entry  *)
(* context is the declared one, else the caller's, else binary64).          *)
(* A fact that fails is printed with its clause;    *)
(* the run goes on so that one failure does not hide the rest.             *)
(***************************************************************************)
EXTENDS AbsFormat, Json, IOUtils

Progs == ndJsonDeserialize(IOEnv.PROG_FILE)
Runs  == ndJsonDeserialize(IOEnv.TRACE_FILE)

VARIABLES r, i, env, dsite, cstk, bad
vars == <<r, i, env, dsite, cstk, bad>>

SeqSet(s) == {s[j] : j \in 1..Len(s)}
IsNumV(v) == v.k \in {"fin", "inf", "nan"}

Run  == Runs[r]
P    == Progs[Run.pid]
Ev(j) == Run.ev[j]
LineRec(l) == P.lines[l]
Known(l) == l \in DOMAIN P.lines

Merge(e, d) == [n \in DOMAIN e \cup DOMAIN d |-> IF n \in DOMAIN d THEN d[n] ELSE e[n]]

\* ---- facts over store-free values
RECURSIVE ShapeD(_, _), SizeD(_, _), MemDV(_, _), SameD(_, _)
ShapeD(v, T) ==
    CASE T.t = "any" \/ v.k = "uninit" -> TRUE
      [] T.t = "real"  -> v.k \in {"fin", "inf", "nan", "big"}
      [] T.t = "bool"  -> v.k = "bool"
      [] T.t = "ctx"   -> v.k = "ctx"
      [] T.t = "list"  -> v.k = "list" /\ \A j \in 1..Len(v.v) : ShapeD(v.v[j], T.e)
      [] T.t = "tuple" -> v.k = "tuple" /\ Len(v.v) = Len(T.es) /\ \A j \in 1..Len(T.es) : ShapeD(v.v[j], T.es[j])
      [] OTHER -> TRUE
SizeD(v, S) ==
    IF "none" \in DOMAIN S THEN TRUE
    ELSE IF "list" \in DOMAIN S THEN
        v.k # "list" \/ ((S.list.n = -1 \/ Len(v.v) = S.list.n) /\ \A j \in 1..Len(v.v) : SizeD(v.v[j], S.list.e))
    ELSE IF "tuple" \in DOMAIN S THEN
        v.k # "tuple" \/ Len(v.v) # Len(S.tuple) \/ \A j \in 1..Len(S.tuple) : SizeD(v.v[j], S.tuple[j])
    ELSE TRUE
ClassD(v) == IF v.k = "big" THEN "fin" ELSE IF v.k = "nan" THEN "nan" ELSE IF v.k = "inf" THEN "inf" ELSE IF v.n = 0 THEN "zero" ELSE "fin"
SameD(a, b) ==
    IF a.k \in {"list", "tuple"} THEN b.k = a.k /\ Len(a.v) = Len(b.v) /\ \A j \in 1..Len(a.v) : SameD(a.v[j], b.v[j])
    ELSE IF IsNumV(a) THEN IsNumV(b) /\ Same(a, b)
    ELSE a = b
NoClaim(F) == "top" \in DOMAIN F \/ "none" \in DOMAIN F
MemDV(v, F) ==
    IF NoClaim(F) THEN TRUE
    ELSE IF v.k = "list" THEN "list" \in DOMAIN F /\ \A j \in 1..Len(v.v) : MemDV(v.v[j], F.list)
    ELSE IF v.k = "tuple" THEN "tuple" \in DOMAIN F /\ Len(F.tuple) = Len(v.v) /\ \A j \in 1..Len(v.v) : MemDV(v.v[j], F.tuple[j])
    ELSE IF IsNumV(v) THEN MemF(v, F)
    ELSE TRUE

CtxOf(e) == IF "__ctx__" \in DOMAIN e THEN e["__ctx__"] ELSE [k |-> "none"]
\* the context stack cut back to the block whose `with` is at line sc ("0": the function's own scope)
RECURSIVE Prefix(_, _)
Prefix(stk, sc) == IF Len(stk) <= 1 \/ stk[Len(stk)].line = sc THEN stk ELSE Prefix(SubSeq(stk, 1, Len(stk) - 1), sc)

\* the same bound with the negative zero counted a member of every numeric part (to name what exactly is missing)
RECURSIVE NZ(_)
NZ(F) == IF "af" \in DOMAIN F THEN [F EXCEPT !.nz = TRUE]
         ELSE IF "set" \in DOMAIN F THEN [set |-> Append(F.set, Zero(1))]
         ELSE IF "list" \in DOMAIN F THEN [list |-> NZ(F.list)]
         ELSE IF "tuple" \in DOMAIN F THEN [tuple |-> [j \in 1..Len(F.tuple) |-> NZ(F.tuple[j])]]
         ELSE F

Say(clause, what) == PrintT(<<"MM", Run.tid, clause, what>>)

\* every failing fact about one definition (printed); TRUE always, the count is kept in `bad`
FactFails(f, v) ==
    {c \in {"value-does-not-have-the-inferred-type", "list-does-not-have-the-inferred-length", "value-outside-the-reported-classes",
            "expression-reported-constant-evaluates-differently", "inferred-format-misses-value",
            "inferred-format-misses-negative-zero"} :
        CASE c = "value-does-not-have-the-inferred-type" -> ~ShapeD(v, f.ty)
          [] c = "list-does-not-have-the-inferred-length" -> ~Run.exc /\ ~SizeD(v, f.sz)
          [] c = "value-outside-the-reported-classes" ->
                (IsNumV(v) \/ v.k = "big") /\ "top" \notin SeqSet(f.vc) /\ ClassD(v) \notin SeqSet(f.vc)
          [] c = "expression-reported-constant-evaluates-differently" -> Len(f.pe) = 1 /\ ~SameD(v, f.pe[1])
          [] c = "inferred-format-misses-value" -> Len(f.fmt) = 1 /\ ~MemDV(v, f.fmt[1]) /\ ~MemDV(v, NZ(f.fmt[1]))
          [] c = "inferred-format-misses-negative-zero" -> Len(f.fmt) = 1 /\ ~MemDV(v, f.fmt[1]) /\ MemDV(v, NZ(f.fmt[1]))}

DefFails(defs, e) ==
    UNION {{<<c, defs[j].n>> : c \in FactFails(defs[j], e[defs[j].n])} : j \in {j \in 1..Len(defs) : defs[j].n \in DOMAIN e}}

\* did the statement at line lp bind its names, given that control is now at line ln?
Binds(lp, ln) ==
    Known(lp) /\ LET s == LineRec(lp) IN
    \/ s.k = "assign"
    \/ s.k \in {"for", "with"} /\ ln = ToString(s.b0)

UseFails(l, ds, lprev) ==
    IF ~Known(l) THEN {}
    ELSE LET s == LineRec(l)
             \* the iterable of a `for` and the context of a `with` are evaluated once: coming back to the header from the body
             \* (next iteration, leaving the block) their reads do not happen again
             again == s.k \in {"for", "with"} /\ lprev \in SeqSet(s.body)
         IN  IF again THEN {}
             ELSE {<<"read-observes-a-definition-not-listed-as-reaching", s.uses[j].n>> :
                     j \in {j \in 1..Len(s.uses) : s.uses[j].n \in DOMAIN ds /\ ds[s.uses[j].n] \notin SeqSet(s.uses[j].ds)}}

Reported(x, y) == <<x, y>> \in SeqSet(P.alias) \/ <<y, x>> \in SeqSet(P.alias)

CondFails(lp, ln) ==
    IF Known(lp) /\ LineRec(lp).k \in {"if", "while"} /\ Len(LineRec(lp).cc) = 1
       /\ (LineRec(lp).cc[1] # (ln = ToString(LineRec(lp).b0)))
    THEN {<<"expression-reported-constant-evaluates-differently", "condition at line " \o lp>>} ELSE {}

Report(S) == \A p \in S : Say(p[1], p[2])

Init == r = 1 /\ i = 0 /\ env = <<>> /\ dsite = <<>> /\ cstk = <<>> /\ bad = 0

\* first event of a run: the parameters
First ==
    /\ r <= Len(Runs) /\ i = 0
    /\ LET e == Ev(1).v
           ds == [n \in {P.params[j].n : j \in 1..Len(P.params)} |-> "0"]
           c0 == IF Len(Run.cx0) = 1 /\ CtxOf(e) # Run.cx0[1]
                 THEN {<<"active-context-is-not-that-of-the-enclosing-scope", "on entry">>} ELSE {}
           F == DefFails(P.params, e) \cup UseFails(Ev(1).l, ds, "") \cup c0
       IN  /\ Report(F)
           /\ env' = e /\ dsite' = ds /\ bad' = bad + Cardinality(F)
           /\ cstk' = <<[line |-> "0", cx |-> CtxOf(e)]>>
    /\ i' = 1 /\ r' = r

Step ==
    /\ r <= Len(Runs) /\ i >= 1 /\ i < Len(Run.ev)
    /\ LET lp == Ev(i).l
           ln == Ev(i + 1).l
           e  == Merge(env, Ev(i + 1).v)
           b  == Binds(lp, ln)
           defs == IF b THEN LineRec(lp).defs ELSE <<>>
           redef == IF Known(lp) THEN SeqSet(LineRec(lp).redef) ELSE {}
           ds == [n \in DOMAIN dsite \cup {defs[j].n : j \in 1..Len(defs)} \cup redef |->
                    IF n \in redef \/ \E j \in 1..Len(defs) : defs[j].n = n THEN lp ELSE dsite[n]]
           same == Ev(i + 1).same
           prs == UNION {UNION {{<<same[c][a1], same[c][b1]>> : b1 \in (a1 + 1)..Len(same[c])} : a1 \in 1..Len(same[c])} : c \in 1..Len(same)}
           al == {<<"same-list-not-reported-as-aliased", p[1] \o "," \o p[2]>> :
                    p \in {p \in prs : p[1] \in SeqSet(P.names) /\ p[2] \in SeqSet(P.names) /\ ~Reported(p[1], p[2])}}
           \* frame condition: a statement whose calls are all reported pure changes only the names it binds
           touched == {n \in DOMAIN Ev(i + 1).v : n \in SeqSet(P.names) /\ n \in DOMAIN env}
           fr == IF Known(lp) /\ LineRec(lp).frame
                 THEN {<<"function-reported-pure-writes-a-list-of-its-caller", n>> : n \in touched \ {defs[j].n : j \in 1..Len(defs)}}
                 ELSE {}
           \* context discipline: entering the block of a `with` pushes the context now active; anywhere else the stack is cut
           \* back to the block the next statement sits in, and (header lines apart: a header is evaluated under REAL and its line
           \* is visited again on the way out) the active context is that block's
           enter == Known(lp) /\ LineRec(lp).k = "with" /\ ln = ToString(LineRec(lp).b0)
           sn == IF Known(ln) THEN LineRec(ln).sc ELSE "0"
           cut == Prefix(cstk, sn)
           stk == IF enter THEN Append(cstk, [line |-> lp, cx |-> CtxOf(e)]) ELSE cut
           cxf == IF enter
                  THEN (IF Len(LineRec(lp).wt) = 1 /\ LineRec(lp).wt[1] \in DOMAIN e /\ e[LineRec(lp).wt[1]] # CtxOf(e)
                        THEN {<<"with-target-is-not-the-active-context", LineRec(lp).wt[1]>>} ELSE {})
                       \cup (IF Len(LineRec(lp).wc) = 1 /\ LineRec(lp).wc[1] # CtxOf(e)
                             THEN {<<"context-reported-for-a-block-is-not-the-active-one", "with at line " \o lp>>} ELSE {})
                  ELSE IF Known(ln) /\ LineRec(ln).k # "with" /\ Len(cut) >= 1 /\ cut[Len(cut)].cx # CtxOf(e)
                       THEN {<<"active-context-is-not-that-of-the-enclosing-scope", "line " \o ln>>} ELSE {}
           F == DefFails(defs, e) \cup CondFails(lp, ln) \cup UseFails(ln, ds, lp) \cup al \cup fr \cup cxf
       IN  /\ Report(F)
           /\ env' = e /\ dsite' = ds /\ bad' = bad + Cardinality(F) /\ cstk' = stk
    /\ i' = i + 1 /\ r' = r

\* the run is over: what it returned, then on to the next run
Finish ==
    /\ r <= Len(Runs) /\ i >= 1 /\ i = Len(Run.ev)
    /\ LET l == Ev(i).l
           rf == IF Known(l) /\ ~Run.exc /\ Len(Run.ret) = 1 /\ Len(LineRec(l).ret) = 1 THEN LineRec(l).ret[1] ELSE [pe |-> <<>>, fmt |-> <<>>]
           F == (IF Len(rf.pe) = 1 /\ ~SameD(Run.ret[1], rf.pe[1])
                 THEN {<<"expression-reported-constant-evaluates-differently", "returned value">>} ELSE {})
                \cup (IF Len(rf.fmt) = 1 /\ ~MemDV(Run.ret[1], rf.fmt[1])
                      THEN {<<IF MemDV(Run.ret[1], NZ(rf.fmt[1])) THEN "inferred-format-misses-negative-zero"
                              ELSE "inferred-format-misses-value", "returned value">>} ELSE {})
           G == IF Len(P.pure) = 1 /\ P.pure[1] /\ Run.mut
                THEN {<<"function-reported-pure-writes-a-list-of-its-caller", P.name>>} ELSE {}
       IN  /\ Report(F \cup G) /\ bad' = bad + Cardinality(F \cup G)
    /\ r' = r + 1 /\ i' = 0 /\ env' = <<>> /\ dsite' = <<>> /\ cstk' = <<>>

Next == First \/ Step \/ Finish
Spec == Init /\ [][Next]_vars

\* every run record carries the running total of steps (events + 1 per run) of its shard
TotalSteps == IF Len(Runs) = 0 THEN 0 ELSE Runs[Len(Runs)].cum
Consumed == TLCGet("stats").diameter - 1 = TotalSteps
Done == IF r = Len(Runs) + 1 THEN PrintT(<<"DONE", Len(Runs), bad>>) ELSE TRUE
=============================================================================
