------------------------------- MODULE MCCursor -------------------------------
(***************************************************************************)
(* Design-level check of the forwarding algebra (no code): a block of N    *)
(* marked statements, every set of at most two disjoint edits (index,      *)
(* removed 0..2, inserted 0..3), every cursor.  The edits are applied to   *)
(* the block abstractly -- an inserted statement's ANCESTRY is the set of  *)
(* markers its edit removed -- and Cursor!Forward must land on a statement *)
(* (or region) whose ancestry contains the cursor's marker, raise only     *)
(* when the statement was deleted, and leave untouched statements alone.   *)
(* MUT = 1 accumulates the shift with > instead of >= : must be rejected.  *)
(***************************************************************************)
EXTENDS Cursor
CONSTANTS N, MUT
VARIABLES E, cur, phase
vars == <<E, cur, phase>>

EditSet == {[bp |-> <<>>, index |-> i, removed |-> r, inserted |-> ins] : i \in 0..N, r \in 0..2, ins \in 0..3}
Valid(e) == e.index + e.removed <= N /\ (e.removed > 0 \/ e.inserted > 0)
Disjoint(a, b) == a.index + a.removed <= b.index /\ ~(a.removed = 0 /\ b.removed = 0 /\ a.index = b.index)
                  /\ ~(a.index = b.index)
Init == /\ phase = "go" /\ cur \in 0..(N - 1)
        /\ E \in {<<>>} \cup {<<a>> : a \in {e \in EditSet : Valid(e)}}
                 \cup {<<a, b>> : a \in {e \in EditSet : Valid(e)}, b \in {e \in EditSet : Valid(e)}}
        /\ (Len(E) = 2 => Disjoint(E[1], E[2]))
Next == phase = "go" /\ phase' = "done" /\ UNCHANGED <<E, cur>>
Spec == Init /\ [][Next]_vars

\* the new block: sequence of ancestry sets, built left to right
RECURSIVE Build(_, _)
Build(i, acc) ==     \* i: next old index
    IF i > N THEN acc
    ELSE LET here == {k \in 1..Len(E) : E[k].index = i}
         IN  IF here # {} /\ i <= N THEN
                 LET k == CHOOSE k \in here : TRUE
                     anc == {i + j : j \in 0..(E[k].removed - 1)}
                     ins == [j \in 1..E[k].inserted |-> anc]
                 IN  IF E[k].removed = 0 THEN (IF i = N THEN acc \o ins ELSE Build(i + 1, acc \o ins \o <<{i}>>))
                     ELSE Build(i + E[k].removed, acc \o ins)
             ELSE IF i = N THEN acc ELSE Build(i + 1, Append(acc, {i}))
NewBlock == Build(0, <<>>)

FwdM(p) ==
    IF MUT = 0 THEN Forward(p, E)
    ELSE \* the wrong shift rule
        LET idx == p[1]
            after == {k \in 1..Len(E) : idx > E[k].index + E[k].removed}
            cont == {k \in 1..Len(E) : idx >= E[k].index /\ idx < E[k].index + E[k].removed}
        IN  IF cont # {} THEN Forward(p, E) ELSE [k |-> "stmt", p |-> <<idx + ShiftSum(after, E)>>]

Lands ==
    LET f == FwdM(<<cur>>)  nb == NewBlock
        deleted == \E k \in 1..Len(E) : cur >= E[k].index /\ cur < E[k].index + E[k].removed /\ E[k].inserted = 0
    IN  CASE f.k = "err" -> deleted
          [] f.k = "stmt" -> ~deleted /\ f.p[1] + 1 \in 1..Len(nb) /\ cur \in nb[f.p[1] + 1]
          [] f.k = "region" -> ~deleted /\ \A j \in 0..(f.n - 1) : f.start + j + 1 \in 1..Len(nb) /\ cur \in nb[f.start + j + 1]
=============================================================================
