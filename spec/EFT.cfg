SPECIFICATION Spec
INVARIANT TypeOK
CHECK_DEADLOCK FALSE
