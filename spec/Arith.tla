-------------------------------- MODULE Arith --------------------------------
(***************************************************************************)
(* Exact arithmetic on Num values with the IEEE 754 special-value rules,   *)
(* and the statement of C02:  op(args) under ctx  =  Round(ctx, Exact).    *)
(*                                                                         *)
(* Exact(op, a, rm) is a SET of candidates [v, irr]: usually one; two when *)
(* the property leaves the sign of a zero open (exact cancellation under   *)
(* RTN; Python-style mod).  irr = TRUE marks an irrational result (a root):*)
(* v is then a dyadic point strictly inside a gap-free enclosure of the    *)
(* true value, fine enough that it rounds exactly as the true value does   *)
(* (a root of a dyadic number is dyadic or irrational, so it never sits on *)
(* a rounding breakpoint).                                                 *)
(***************************************************************************)
EXTENDS Rounding

C(v)  == {[v |-> v, irr |-> FALSE]}
CI(v) == {[v |-> v, irr |-> TRUE]}

\* sign of an exactly cancelled sum
CancelZero(rm) == IF rm = "RTN" THEN C(Zero(0)) \cup C(Zero(1)) ELSE C(Zero(0))

XAdd(x, y, rm) ==
    IF x.k = "nan" \/ y.k = "nan" THEN C(NaN)
    ELSE IF x.k = "inf" THEN (IF y.k = "inf" /\ y.s # x.s THEN C(NaN) ELSE C(x))
    ELSE IF y.k = "inf" THEN C(y)
    ELSE IF x.n = 0 /\ y.n = 0 THEN (IF x.s = y.s THEN C(x) ELSE CancelZero(rm))
    ELSE LET r == RAdd(x, y) IN IF r.n = 0 THEN CancelZero(rm) ELSE C(r)

XMul(x, y) ==
    IF x.k = "nan" \/ y.k = "nan" THEN NaN
    ELSE LET s == (x.s + y.s) % 2 IN
         IF x.k = "inf" THEN (IF IsZero(y) THEN NaN ELSE Inf(s))
         ELSE IF y.k = "inf" THEN (IF IsZero(x) THEN NaN ELSE Inf(s))
         ELSE RMul(x, y)

XDiv(x, y) ==
    IF x.k = "nan" \/ y.k = "nan" THEN NaN
    ELSE LET s == (x.s + y.s) % 2 IN
         IF x.k = "inf" THEN (IF y.k = "inf" THEN NaN ELSE Inf(s))
         ELSE IF y.k = "inf" THEN Zero(s)
         ELSE IF y.n = 0 THEN (IF x.n = 0 THEN NaN ELSE Inf(s))
         ELSE RDiv(x, y)

RECURSIVE IRootR(_, _, _, _)
\* largest r in lo..hi with r^k <= n
IRootR(n, k, lo, hi) ==
    IF lo >= hi THEN lo
    ELSE LET mid == (lo + hi + 1) \div 2
         IN  IF mid ^ k <= n THEN IRootR(n, k, mid, hi) ELSE IRootR(n, k, lo, mid - 1)
IRoot(n, k) == IRootR(n, k, 0, IF k = 2 THEN Min(n, 46340) ELSE Min(n, 1290))

\* k-th root (k = 2, 3) of a positive dyadic x on the grid 2^-g
Root(x, k, g) ==
    LET j  == BitLen(x.d) - 1                      \* x = n / 2^j
        jj == j + ((k - (j % k)) % k)              \* make the exponent a multiple of k
        nn == x.n * Pow2(jj - j) * Pow2(k * g)     \* x * 2^jj * 2^(k g)
        r  == IRoot(nn, k)                         \* floor(root(x) * 2^(jj/k) * 2^g)
        sh == jj \div k + g
    IN  IF r ^ k = nn THEN C(Dy(0, r, -sh))
        ELSE CI(Dy(0, 2 * r + 1, -sh - 1))         \* midpoint of (r, r+1) * 2^-sh

XSqrt(x, g) ==
    IF x.k = "nan" THEN C(NaN)
    ELSE IF x.k = "inf" THEN (IF x.s = 1 THEN C(NaN) ELSE C(x))
    ELSE IF x.n = 0 THEN C(x)
    ELSE IF x.s = 1 THEN C(NaN)
    ELSE Root(x, 2, g)

XCbrt(x, g) ==
    IF x.k # "fin" \/ x.n = 0 THEN C(x)
    ELSE {[v |-> [c.v EXCEPT !.s = x.s], irr |-> c.irr] : c \in Root(RAbs(x), 3, g)}

XHypot(x, y, g) ==
    IF x.k = "inf" \/ y.k = "inf" THEN C(Inf(0))
    ELSE IF x.k = "nan" \/ y.k = "nan" THEN C(NaN)
    ELSE LET ss == RAdd(RMul(x, x), RMul(y, y)) IN IF ss.n = 0 THEN C(Zero(0)) ELSE Root(ss, 2, g)

\* integer nearest x/y by mode on the exact quotient (finite x, y # 0)
QuoInt(rm, x, y) ==
    LET q == RDiv(x, y)
    IN  IF q.n = 0 \/ q.d = 1 THEN q ELSE RoundU([hasP |-> FALSE, p |-> 0, hasN |-> TRUE, nmin |-> -1], rm, q).val
RemBy(rm, x, y) == RSub(x, RMul(QuoInt(rm, x, y), y))

XRemFamily(op, x, y) ==
    IF x.k = "nan" \/ y.k = "nan" THEN C(NaN)
    ELSE IF x.k = "inf" THEN C(NaN)
    ELSE IF y.k = "fin" /\ y.n = 0 THEN C(NaN)
    ELSE IF y.k = "inf" THEN
        (IF op = "mod" /\ x.n # 0 /\ x.s # y.s THEN C(y)
         ELSE IF op = "mod" /\ x.n = 0 THEN C(Zero(0)) \cup C(Zero(1)) ELSE C(x))
    ELSE LET r == RemBy(IF op = "fmod" THEN "RTZ" ELSE IF op = "remainder" THEN "RNE" ELSE "RTN", x, y)
         IN  IF r.n # 0 THEN C(r)
             ELSE IF op = "mod" THEN C(Zero(0)) \cup C(Zero(1)) ELSE C(Zero(x.s))

RECURSIVE RPowNat(_, _)
RPowNat(x, n) == IF n = 0 THEN OfInt(1) ELSE RMul(x, RPowNat(x, n - 1))
\* x ** n for an integer n
XPowInt(x, n) ==
    LET odd == n % 2 = 1
        s   == IF x.k # "nan" /\ x.s = 1 /\ odd THEN 1 ELSE 0
    IN  IF n = 0 THEN OfInt(1)
        ELSE IF x.k = "nan" THEN NaN
        ELSE IF x.k = "inf" THEN (IF n > 0 THEN Inf(s) ELSE Zero(s))
        ELSE IF x.n = 0 THEN (IF n > 0 THEN Zero(s) ELSE Inf(s))
        ELSE IF n > 0 THEN RPowNat(x, n) ELSE RDiv(OfInt(1), RPowNat(x, -n))

\* rounding to an integer by a fixed mode; the sign of a zero result is x's
XToInt(rm, x) ==
    IF x.k # "fin" \/ x.n = 0 \/ x.d = 1 THEN x
    ELSE RoundU([hasP |-> FALSE, p |-> 0, hasN |-> TRUE, nmin |-> -1], rm, x).val

XFdim(x, y) ==
    IF x.k = "nan" \/ y.k = "nan" THEN C(NaN)
    ELSE IF x.k = "inf" /\ y.k = "inf" THEN (IF x.s = 0 /\ y.s = 1 THEN C(Inf(0)) ELSE C(Zero(0)))
    ELSE IF x.k = "inf" THEN (IF x.s = 0 THEN C(Inf(0)) ELSE C(Zero(0)))
    ELSE IF y.k = "inf" THEN (IF y.s = 1 THEN C(Inf(0)) ELSE C(Zero(0)))
    ELSE IF Cmp(x, y) > 0 THEN C(RSub(x, y)) ELSE C(Zero(0))

\* a : sequence of argument values; g : grid exponent for roots; rm : the context's mode
Exact(op, a, rm, g) ==
    CASE op = "add" -> XAdd(a[1], a[2], rm)
      [] op = "sub" -> XAdd(a[1], RNeg(a[2]), rm)
      [] op = "mul" -> C(XMul(a[1], a[2]))
      [] op = "div" -> C(XDiv(a[1], a[2]))
      [] op = "fma" -> LET m == XMul(a[1], a[2]) IN XAdd(m, a[3], rm)
      [] op = "sqrt" -> XSqrt(a[1], g)
      [] op = "cbrt" -> XCbrt(a[1], g)
      [] op = "hypot" -> XHypot(a[1], a[2], g)
      [] op \in {"mod", "fmod", "remainder"} -> XRemFamily(op, a[1], a[2])
      [] op = "pow" -> C(XPowInt(a[1], SN(a[2])))
      [] op = "neg" -> C(RNeg(a[1]))
      [] op = "fabs" -> C(RAbs(a[1]))
      [] op = "copysign" -> C(IF a[1].k = "nan" THEN NaN ELSE [a[1] EXCEPT !.s = a[2].s])
      [] op = "fdim" -> XFdim(a[1], a[2])
      [] op = "ceil" -> C(XToInt("RTP", a[1]))
      [] op = "floor" -> C(XToInt("RTN", a[1]))
      [] op = "trunc" -> C(XToInt("RTZ", a[1]))
      [] op = "roundint" -> C(XToInt("RNA", a[1]))

\* r: [op, ctx, args, g, out]   out = [val] or [err]
OpVerdict(r) ==
    LET c    == r.ctx
        a    == [i \in 1..Len(r.args) |-> Canon(r.args[i])]
        rm   == IF c.fam = "real" THEN "RNE" ELSE c.rm
        exps == IF r.op = "nearbyint" THEN {Expect(c, a[1], TRUE, -1)}
                ELSE {Expect(c, cand.v, FALSE, 0) : cand \in Exact(r.op, a, rm, r.g)}
        irr  == r.op # "nearbyint" /\ \E cand \in Exact(r.op, a, rm, r.g) : cand.irr
    IN
    IF "err" \in DOMAIN r.out THEN
        (IF (\E e \in exps : r.out.err \in e.errs) \/ (irr /\ c.fam = "real") THEN "ok" ELSE "unexpected-error")
    ELSE IF irr /\ c.fam = "real" THEN "irrational-under-real"
    ELSE IF \E e \in exps : \E v \in e.vals : Same(v, Canon(r.out.val)) THEN "ok"
    ELSE IF \A e \in exps : e.vals = {} THEN "missing-error"
    ELSE IF \E e \in exps : \E v \in e.vals : SameVal(v, Canon(r.out.val)) THEN "value-zero-sign"
    ELSE "value"
=============================================================================
