SPECIFICATION Spec
CONSTANTS
  N = 4
  MUT = 1
INVARIANT Lands
CHECK_DEADLOCK FALSE
