----------------------------- MODULE MCWideRound -----------------------------
(* Design-level check of the limb arithmetic WideRound relies on: on two-limb numbers around the limb boundaries, comparison,
   addition and halving agree with integer arithmetic; and the nearest / truncate / away tests agree with their definitions
   on integers for a small scale. *)
EXTENDS WideRound
VARIABLES a, b
Pts == {0, 1, 2, 3, 32766, 32767, 32768, 32769, 65534, 65535, 65536, 65537, 98304, 1000000, 999999999, 1073741822, 1073741823}
L2(n) == <<n % B, n \div B>>
Val(s) == IF Len(s) = 2 THEN s[1] + B * s[2] ELSE s[1] + B * s[2] + B * B * s[3]
Init == a \in Pts /\ b \in Pts
Next == UNCHANGED <<a, b>>
Spec == Init /\ [][Next]_<<a, b>>
CmpOK == CmpL(L2(a), L2(b)) = (IF a < b THEN -1 ELSE IF a > b THEN 1 ELSE 0)
AddOK == (a < 1000000000 /\ b < 1000000000) => Val(AddL(L2(a), L2(b))) = a + b
HalfOK == a % 2 = 0 => Val(HalfL(L2(a))) = a \div 2
\* the interval tests against their integer definitions, u = 8
R(m, lo, hi) == [m |-> L2(m), u |-> L2(8), lo |-> L2(lo), hi |-> L2(hi)]
TestsOK == \A m \in {0, 8, 32768, 65536} : \A d \in 0..12 : \A w \in 1..3 :
              LET lo == m + d  hi == m + d + w IN
              /\ Nearest(R(m, lo, hi)) = (hi < m + 4)
              /\ Truncate(R(m, lo, hi)) = (hi < m + 8)
              /\ (m >= 16 => Away(R(m, lo - 12, hi - 12)) = (m - 8 < lo - 12 /\ hi - 12 <= m))
=============================================================================
