---------------------------- MODULE MCStochastic ----------------------------
(***************************************************************************)
(* Design-level model of RealFloat._round_at_stochastic (no code).         *)
(* The random source is the nondeterministic action Draw(r); the other     *)
(* actions are the steps of the algorithm: Extend (round to K extra        *)
(* digits under the base mode), SplitLost, Choose, Final.  TLC explores    *)
(* every draw of every small configuration and checks                      *)
(*   - every outcome is one of the two neighbours (or x itself),           *)
(*   - the outcome is a function of (x, r)  (one successor per draw),      *)
(*   - the number of draws that go up equals Stochastic!UpCount,           *)
(*   - exactly one draw on every path.                                     *)
(* MUT = 1 is the algorithm as it was before the fix a5d3a84 (the "exact"  *)
(* arm rounds the original operand toward zero): TLC must reject it.       *)
(***************************************************************************)
EXTENDS Stochastic
CONSTANTS PS, NS, NoN, KS, CMAX, ELO, EHI, MUT
NSdef == {99, -3, -1}
ELOdef == -4

VARIABLES pc, f, rm, K, x, r, draws, xr, lostc, up, res
vars == <<pc, f, rm, K, x, r, draws, xr, lostc, up, res>>

Formats == {[hasP |-> p # 0, p |-> p, hasN |-> nn # NoN, nmin |-> IF nn = NoN THEN 0 ELSE nn] :
              p \in PS, nn \in NS} \ {[hasP |-> FALSE, p |-> 0, hasN |-> FALSE, nmin |-> 0]}

Init ==
    /\ pc = "draw" /\ f \in Formats /\ rm \in Modes /\ K \in KS
    /\ x \in {Dy(s, c, e) : s \in {0, 1}, c \in 1..CMAX, e \in ELO..EHI}
    /\ r = 0 /\ draws = 0 /\ xr = Zero(0) /\ lostc = 0 /\ up = FALSE /\ res = Zero(0)

\* the position n the value is finally rounded at (RealFloat._round_params)
N0 == QExp(f, FloorLog2(x.n, x.d)) - 1
FixedAt(n) == [hasP |-> FALSE, p |-> 0, hasN |-> TRUE, nmin |-> n]
FinalFmt == [hasP |-> f.hasP, p |-> f.p, hasN |-> TRUE, nmin |-> N0]

Draw == /\ pc = "draw" /\ r' \in 0..(Pow2(K) - 1) /\ draws' = draws + 1 /\ pc' = "extend"
        /\ UNCHANGED <<f, rm, K, x, xr, lostc, up, res>>
\* step 4: xr = self._round_at(None, n - K, None, rm)
Extend == /\ pc = "extend" /\ xr' = RoundU(FixedAt(N0 - K), rm, x).val /\ pc' = "split"
          /\ UNCHANGED <<f, rm, K, x, r, draws, lostc, up, res>>
\* steps 5-7: the digits of xr at or below n, as an integer multiple of 2^(n-K+1)
SplitLost ==
    /\ pc = "split"
    /\ LET kept == RoundU(FixedAt(N0), "RTZ", xr).val
           lost == IF xr.n = 0 THEN Zero(0) ELSE RSub(RAbs(xr), RAbs(kept))
       IN  lostc' = RMulPow2(lost, -(N0 - K + 1)).n
    /\ pc' = "choose"
    /\ UNCHANGED <<f, rm, K, x, r, draws, xr, up, res>>
\* steps 6/8
Choose ==
    /\ pc = "choose"
    /\ up' = IF lostc = 0
             THEN (IF MUT = 1 THEN FALSE ELSE Lt(RAbs(x), RAbs(xr)))
             ELSE r + lostc >= Pow2(K)
    /\ pc' = "final"
    /\ UNCHANGED <<f, rm, K, x, r, draws, xr, lostc, res>>
\* step 9
Final == /\ pc = "final" /\ res' = RoundU(FinalFmt, IF up THEN "RAZ" ELSE "RTZ", x).val /\ pc' = "done"
         /\ UNCHANGED <<f, rm, K, x, r, draws, xr, lostc, up>>
Next == Draw \/ Extend \/ SplitLost \/ Choose \/ Final
Spec == Init /\ [][Next]_vars

Lo == RoundU(f, "RTZ", x).val
Hi == RoundU(f, "RAZ", x).val
Neighbour == pc = "done" => Same(res, Lo) \/ Same(res, Hi)
OneDraw == pc = "done" => draws = 1
\* the decision as a function of the draw, for counting over all draws
WouldGoUp(rr) ==
    LET e    == RoundU(FixedAt(N0 - K), rm, x).val
        kept == RoundU(FixedAt(N0), "RTZ", e).val
        lc   == IF e.n = 0 THEN 0 ELSE RMulPow2(RSub(RAbs(e), RAbs(kept)), -(N0 - K + 1)).n
    IN  IF lc = 0 THEN (IF MUT = 1 THEN FALSE ELSE Lt(RAbs(x), RAbs(e))) ELSE rr + lc >= Pow2(K)
CountOK ==
    pc = "draw" /\ ~Same(Lo, Hi) =>
        Cardinality({rr \in 0..(Pow2(K) - 1) : WouldGoUp(rr)})
          = UpCount([k |-> K, rm |-> rm], f, x, K)
\* the machine's decision is the function counted above
Functional == pc = "final" => up = WouldGoUp(r)
Representable == pc = "done" /\ Same(Lo, Hi) => Same(res, x)
=============================================================================
