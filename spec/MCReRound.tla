----------------------------- MODULE MCReRound -----------------------------
(***************************************************************************)
(* Design-level lemma behind C02 / C03 (no code involved): an exact value  *)
(* y first rounded to odd with two extra digits (what the MPFR engine and  *)
(* Context._round_prepare hand to Context.round) and then rounded under    *)
(* the target format and mode gives the same value and the same inexact    *)
(* verdict as rounding y once.  Checked for every small target format,     *)
(* every mode, and every y on a grid 2^-G that is much finer than the      *)
(* format (and thirds of that grid, for non-dyadic exact results).         *)
(* EXTRA = 1 (one guard digit only) must be rejected: vacuity guard.       *)
(***************************************************************************)
EXTENDS Rounding
CONSTANTS PS, NS, NoN, G, YMAX, EXTRA
NSdef == {99, -3, -1}
VARIABLES f, rm, y, phase
vars == <<f, rm, y, phase>>

Formats == {[hasP |-> p # 0, p |-> p, hasN |-> nn # NoN, nmin |-> IF nn = NoN THEN 0 ELSE nn] :
              p \in PS, nn \in NS} \ {[hasP |-> FALSE, p |-> 0, hasN |-> FALSE, nmin |-> 0]}
Init == /\ phase = "exact" /\ f \in Formats /\ rm \in Modes
        /\ y \in {Fin(s, m, d * Pow2(G)) : s \in {0, 1}, m \in 1..YMAX, d \in {1, 3}}
Next == phase = "exact" /\ phase' = "done" /\ UNCHANGED <<f, rm, y>>
Spec == Init /\ [][Next]_vars

\* the intermediate format: EXTRA more digits, position lowered by EXTRA
Wide == [hasP |-> f.hasP, p |-> f.p + EXTRA, hasN |-> f.hasN, nmin |-> f.nmin - EXTRA]
DoubleRoundingSafe ==
    LET mid  == RoundU(Wide, "RTO", y)
        once == RoundU(f, rm, y)
        twice == IF mid.val.n = 0 THEN [val |-> mid.val, inexact |-> FALSE] ELSE RoundU(f, rm, mid.val)
    IN  /\ Same(once.val, twice.val)
        /\ once.inexact = (mid.inexact \/ twice.inexact)
=============================================================================
