SPECIFICATION Spec
INVARIANT TypeOK
INVARIANT Done
CHECK_DEADLOCK FALSE
