SPECIFICATION Spec
CONSTANTS
  N = 6
  MUT = 0
INVARIANT Lands
CHECK_DEADLOCK FALSE
