------------------------------ MODULE NumberOps ------------------------------
(***************************************************************************)
(* C05: the number types compute exactly on denotations.                   *)
(* Every record carries the DENOTATIONS of the operands (however they were *)
(* encoded: c=4,exp=0 and c=1,exp=2 both arrive as 4) and of the result.   *)
(* "Denotes the real number": zeros are identified (SameVal); infinities   *)
(* and NaN follow the IEEE rules of Arith.                                 *)
(***************************************************************************)
EXTENDS Arith

One(S) == CHOOSE v \in S : TRUE
Val(c) == One(c).v

CmpExpect(op, x, y) ==
    IF x.k = "nan" \/ y.k = "nan" THEN FALSE
    ELSE LET c == IF x.k = "inf" /\ y.k = "inf" THEN (IF x.s = y.s THEN 0 ELSE IF x.s = 1 THEN -1 ELSE 1)
                  ELSE IF x.k = "inf" THEN (IF x.s = 1 THEN -1 ELSE 1)
                  ELSE IF y.k = "inf" THEN (IF y.s = 1 THEN 1 ELSE -1)
                  ELSE Cmp(x, y)
         IN  CASE op = "eq" -> c = 0 [] op = "lt" -> c < 0 [] op = "le" -> c <= 0
               [] op = "gt" -> c > 0 [] op = "ge" -> c >= 0

Cmp3Expect(x, y) ==
    IF x.k = "nan" \/ y.k = "nan" THEN 2
    ELSE IF CmpExpect("lt", x, y) THEN -1 ELSE IF CmpExpect("gt", x, y) THEN 1 ELSE 0

MultipleOfPow2(x, q) ==        \* x / 2^q is an integer
    x.n = 0 \/ (IF q >= 0 THEN x.d = 1 /\ x.n % Pow2(q) = 0 ELSE Pow2(-q) % x.d = 0)

\* "unsupported operand type(s)" is Python's way of refusing a pair of types
\* (RealFloat + Float, RealFloat.compare(Float)): a refusal is not a wrong value.
Refusal(r) == "err" \in DOMAIN r.out /\ r.out.err \in {"TypeError", "NotImplementedError"}

NumVerdict(r) ==
    LET a == [i \in 1..Len(r.args) |-> Canon(r.args[i])]
        haserr == "err" \in DOMAIN r.out
    IN
    IF Refusal(r) /\ r.op \in {"add", "sub", "mul", "pow", "compare", "lt", "le", "gt", "ge"} THEN "ok" ELSE
    CASE r.op \in {"add", "sub", "mul"} ->
           IF haserr THEN (IF r.refusable THEN "ok" ELSE "unexpected-error")
           ELSE LET e == IF r.op = "add" THEN Val(XAdd(a[1], a[2], "RNE"))
                         ELSE IF r.op = "sub" THEN Val(XAdd(a[1], RNeg(a[2]), "RNE"))
                         ELSE XMul(a[1], a[2])
                IN  IF SameVal(e, Canon(r.out.val)) THEN "ok" ELSE "value"
      [] r.op = "pow" ->
           IF haserr THEN (IF r.refusable THEN "ok" ELSE "unexpected-error")
           ELSE IF SameVal(XPowInt(a[1], r.n), Canon(r.out.val)) THEN "ok" ELSE "value"
      [] r.op \in {"neg", "pos", "abs"} ->
           IF haserr THEN "unexpected-error"
           ELSE LET e == IF r.op = "neg" THEN RNeg(a[1]) ELSE IF r.op = "abs" THEN RAbs(a[1]) ELSE a[1]
                IN  IF Same(e, Canon(r.out.val)) THEN "ok" ELSE "value"
      [] r.op \in {"eq", "lt", "le", "gt", "ge"} ->
           IF haserr THEN "unexpected-error"
           ELSE IF r.out.b = CmpExpect(r.op, a[1], a[2]) THEN "ok" ELSE "comparison"
      [] r.op = "compare" ->
           IF haserr THEN "unexpected-error"
           ELSE IF r.out.o = Cmp3Expect(a[1], a[2]) THEN "ok" ELSE "comparison"
      [] r.op \in {"int", "float", "rational"} ->
           \* a conversion either returns exactly the same value or raises
           IF haserr THEN "ok"
           ELSE IF a[1].k = "nan" THEN (IF Canon(r.out.val).k = "nan" THEN "ok" ELSE "conversion")
           ELSE IF SameVal(a[1], Canon(r.out.val)) THEN "ok" ELSE "conversion"
      [] r.op = "split" ->
           IF haserr THEN "unexpected-error"
           ELSE LET hi == Canon(r.out.hi)  lo == Canon(r.out.lo)  q == r.n + 1
                IN  IF ~SameVal(RAdd(hi, lo), a[1]) THEN "split-sum"
                    ELSE IF ~MultipleOfPow2(hi, q) THEN "split-hi"
                    ELSE IF ~(lo.n = 0 \/ Lt(RAbs(lo), Dy(0, 1, q))) THEN "split-lo"
                    ELSE IF ~(lo.n = 0 \/ lo.s = a[1].s) \/ ~(hi.n = 0 \/ hi.s = a[1].s) THEN "split-sign"
                    ELSE "ok"
      [] r.op = "normalize" ->
           IF haserr THEN "ok"        \* an unreachable (p, n) request is refused
           ELSE IF ~Same(a[1], Canon(r.out.val)) THEN "normalize-value"
           ELSE IF r.p > 0 /\ a[1].n # 0 /\ r.out.cbits # r.p THEN "normalize-precision"
           ELSE IF r.hasn /\ a[1].n # 0 /\ r.out.exp # r.n + 1 THEN "normalize-position"
           ELSE "ok"
      [] r.op = "msig" ->
           IF haserr THEN "unexpected-error"
           ELSE IF r.out.b = MultipleOfPow2(a[1], r.n + 1) THEN "ok" ELSE "is-more-significant"
      [] r.op = "bit" ->
           IF haserr THEN "unexpected-error"
           ELSE LET q == r.n
                    fl == IF q >= 0 THEN a[1].n \div (a[1].d * Pow2(q)) ELSE (a[1].n * Pow2(-q)) \div a[1].d
                IN  IF r.out.b = (fl % 2 = 1) THEN "ok" ELSE "bit"
      [] r.op = "conv_dy" ->
           \* conversions of values with exponents far outside TLC's integers: operand and result travel as
           \* normalised (s, c, e) triples (c odd), so "exactly the same value" is equality of triples
           IF haserr THEN "ok"
           ELSE IF r.out.s = r.x.s /\ r.out.c = r.x.c /\ r.out.e = r.x.e THEN "ok" ELSE "conversion-wide"
      [] r.op = "hashtable" ->
           LET R == r.rows  I == 1..Len(R)
           IN  IF \E i, j \in I : SameVal(Canon(R[i].v), Canon(R[j].v)) /\ R[i].v.k # "nan" /\ R[i].h # R[j].h
               THEN "hash" ELSE "ok"
=============================================================================
