SPECIFICATION Spec
CONSTANTS
  MUT = "SharedMPFR"
  SCRIPTS = {1, 2, 3}
INVARIANT SeqEquivalent
INVARIANT ArgsUntouched
INVARIANT NoSharedStructure
CHECK_DEADLOCK FALSE
