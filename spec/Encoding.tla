------------------------------ MODULE Encoding ------------------------------
(***************************************************************************)
(* Published bit layouts of the encodable formats and the relational       *)
(* statement of C16 over a whole format ("table") at once.                 *)
(*                                                                         *)
(* Decode(c, b) is written from the layouts only:                          *)
(*  efloat : sign | es exponent bits | m mantissa bits, IEEE-style with    *)
(*           the NaN/inf code assignment of the "small floats" note:       *)
(*           ieee    - all-ones exponent: mantissa 0 is inf (if enabled),  *)
(*                     everything else NaN                                 *)
(*           maxval  - the all-ones code is NaN, the one below it inf      *)
(*           negzero - the code of -0 is NaN; all-ones is inf (if enabled) *)
(*           none    - no NaN; all-ones is inf (if enabled)                *)
(*  fixed  : two's complement (signed) or plain binary, times 2^scale      *)
(*  smfixed: sign | magnitude, times 2^scale                               *)
(*  exp    : code k is 2^(k - bias), the all-ones code is NaN              *)
(***************************************************************************)
EXTENDS Rounding

DecodeEF(c, b) ==
    LET half == Pow2(c.nbits - 1)
        sg   == b \div half
        ord  == b % half                       \* exponent and mantissa bits
        m    == EFm(c)
        eb   == ord \div Pow2(m)
        mb   == ord % Pow2(m)
        top  == half - 1
    IN  CASE c.nk = "ieee" ->
               IF eb = Pow2(c.es) - 1 THEN (IF c.inf /\ mb = 0 THEN Inf(sg) ELSE NaN)
               ELSE [EFValOfOrd(c, ord) EXCEPT !.s = sg]
          [] c.nk = "maxval" ->
               IF ord = top THEN NaN
               ELSE IF c.inf /\ ord = top - 1 THEN Inf(sg)
               ELSE [EFValOfOrd(c, ord) EXCEPT !.s = sg]
          [] OTHER ->
               IF c.inf /\ ord = top THEN Inf(sg)
               ELSE IF ord = 0 /\ sg = 1 /\ c.nk = "negzero" THEN NaN
               ELSE [EFValOfOrd(c, ord) EXCEPT !.s = sg]

DecodeFixed(c, b) ==
    IF c.signed /\ b >= Pow2(c.nbits - 1) THEN Dy(1, Pow2(c.nbits) - b, c.scale)
    ELSE Dy(0, b, c.scale)

DecodeSM(c, b) == Dy(b \div Pow2(c.nbits - 1), b % Pow2(c.nbits - 1), c.scale)

DecodeExp(c, b) ==
    IF b = Pow2(c.nbits) - 1 THEN NaN
    ELSE LET k == b - (Pow2(c.nbits - 1) - 1 - c.eoff) IN Dy(0, 1, k)

Decode(c, b) ==
    CASE c.fam = "efloat"  -> DecodeEF(c, b)
      [] c.fam = "fixed"   -> DecodeFixed(c, b)
      [] c.fam = "smfixed" -> DecodeSM(c, b)
      [] c.fam = "exp"     -> DecodeExp(c, b)

Codes(c) == 0..(Pow2(c.nbits) - 1)
FiniteValues(c) == {v \in {Decode(c, b) : b \in Codes(c)} : v.k = "fin"}

-----------------------------------------------------------------------------
(* Judging a recorded table of one format.                                 *)
(*  t.rows[i] = [b, val, b2, fin, ord, back, up, down, norm, rep]          *)
(*    val = decode(b)  b2 = encode(val)  ord = to_ordinal(val)             *)
(*    back = from_ordinal(ord)  up/down = <<>> or <<next_up/next_down>>    *)
(*    norm = normalize(val)  rep = representable_in(val)                   *)
(*  t.probes[j] = [x, rep]  values of the surrounding grid                 *)
(*  t.largest, t.smallest (sequences of length 0/1)                        *)
(* Returns the name of the first failing clause, or "ok".                  *)
(***************************************************************************)
TableVerdict(t) ==
    LET c    == t.ctx
        R    == t.rows
        I    == 1..Len(R)
        val(i) == Canon(R[i].val)
        fin  == {i \in I : val(i).k = "fin"}
        spec(i) == Decode(c, R[i].b)
        members == {spec(i) : i \in fin}
    IN
    IF Len(R) # Pow2(c.nbits) THEN "table-size"
    ELSE IF \E i \in I : ~Same(spec(i), val(i)) THEN "decode"
    ELSE IF \E i \in I : ~R[i].rep THEN "representable"
    ELSE IF \E i \in I : R[i].b2 < 0 THEN "encode-raises"
    ELSE IF \E i \in I : ~Same(Decode(c, R[i].b2), val(i)) THEN "encode-decode"
    ELSE IF \E i \in I : val(i).k # "nan" /\ R[i].b2 # R[i].b THEN "encode-unique"
    ELSE IF \E i \in fin : R[i].b3 # R[i].b2 THEN "encode-depends-on-the-spelling"
    ELSE IF Len(t.nanrt) = 1 /\ ~t.nanrt[1] THEN "nan-does-not-round-trip"
    ELSE IF \E i \in fin : ~Same(Canon(R[i].norm), val(i)) THEN "normalize"
    ELSE IF \E i \in fin : ~Same(Canon(R[i].norm2), val(i)) THEN "normalize-depends-on-the-spelling"
    ELSE IF \E i, j \in fin : (Lt(val(i), val(j)) # (R[i].ord < R[j].ord)) THEN "ordinal-order"
    ELSE IF \E i, j \in fin : (SameVal(val(i), val(j)) # (R[i].ord = R[j].ord)) THEN "ordinal-zero"
    ELSE IF fin # {} /\
            LET os == {R[i].ord : i \in fin}
                lo == CHOOSE o \in os : \A q \in os : o <= q
                hi == CHOOSE o \in os : \A q \in os : q <= o
            IN  hi - lo + 1 # Cardinality(os) THEN "ordinal-contiguous"
    ELSE IF \E i \in fin : ~SameVal(Canon(R[i].back), val(i)) THEN "from-ordinal"
    ELSE IF \E i \in fin : Len(R[i].up) = 1 /\ Canon(R[i].up[1]).k = "fin" /\
              ~(\E j \in fin : R[j].ord = R[i].ord + 1 /\ SameVal(Canon(R[i].up[1]), val(j))) THEN "next-up"
    ELSE IF \E i \in fin : Len(R[i].up) = 0 /\ (\E j \in fin : R[j].ord = R[i].ord + 1) THEN "next-up-missing"
    ELSE IF \E i \in fin : Len(R[i].down) = 1 /\ Canon(R[i].down[1]).k = "fin" /\
              ~(\E j \in fin : R[j].ord = R[i].ord - 1 /\ SameVal(Canon(R[i].down[1]), val(j))) THEN "next-down"
    ELSE IF \E i \in fin : Len(R[i].down) = 0 /\ (\E j \in fin : R[j].ord = R[i].ord - 1) THEN "next-down-missing"
    ELSE IF \E j \in 1..Len(t.probes) :
              LET x == Canon(t.probes[j].x) IN t.probes[j].rep # (\E v \in members : Same(v, x)) THEN "probe-representable"
    ELSE IF fin # {} /\ Len(t.largest) = 1 /\ ~(\A i \in fin : Le(val(i), Canon(t.largest[1]))) THEN "largest"
    ELSE IF fin # {} /\ Len(t.largest) = 1 /\ ~(\E i \in fin : SameVal(val(i), Canon(t.largest[1]))) THEN "largest-member"
    ELSE IF fin # {} /\ Len(t.smallest) = 1 /\ ~(\A i \in fin : Le(Canon(t.smallest[1]), val(i))) THEN "smallest"
    ELSE IF fin # {} /\ Len(t.smallest) = 1 /\ ~(\E i \in fin : SameVal(val(i), Canon(t.smallest[1]))) THEN "smallest-member"
    ELSE "ok"

(* An ordinal window of a format without an encoding (mpsfloat, mpbfloat,  *)
(* mpfixed, mpbfixed): rows [ord, val, ord2] for consecutive ordinals.     *)
WindowVerdict(t) ==
    LET R == t.rows
        I == 1..Len(R)
        f0 == Core(t.ctx)
        f == [f0 EXCEPT !.hasMax = FALSE]
        val(i) == Canon(R[i].val)
    IN
    IF \E i \in I : R[i].ord2 # R[i].ord THEN "to-from-ordinal"
    ELSE IF \E i \in I : ~InCore(f, val(i)) THEN "window-member"
    ELSE IF \E i \in I : i < Len(R) /\ ~Lt(val(i), val(i + 1)) THEN "window-order"
    ELSE IF \E i \in I : i < Len(R) /\ val(i).s = val(i + 1).s /\
            LET mid == RMulPow2(RAdd(val(i), val(i + 1)), -1)
                a   == RAbs(mid)
                lo  == IF Lt(RAbs(val(i)), RAbs(val(i + 1))) THEN RAbs(val(i)) ELSE RAbs(val(i + 1))
                hi  == IF Lt(RAbs(val(i)), RAbs(val(i + 1))) THEN RAbs(val(i + 1)) ELSE RAbs(val(i))
            IN  ~(Same(RoundU(f, "RTZ", a).val, lo) /\ Same(RoundU(f, "RAZ", a).val, hi)) THEN "window-adjacent"
    ELSE "ok"
=============================================================================
