------------------------------- MODULE Scoping -------------------------------
(***************************************************************************)
(* C15: the data-free abstraction of the FPy machine.                      *)
(*                                                                         *)
(* A program is a table of blocks of abstract statements (what each        *)
(* statement DEFINES and what it USES; conditions and trip counts are      *)
(* dedicated steering inputs, so every syntactic path is a real path):     *)
(*   [k |-> "assign", d: Seq(name), u: Seq(name)]                          *)
(*   [k |-> "if", u, c: steering index, t: block id, f: block id | 0]      *)
(*   [k |-> "for", d: loop targets, u, n: steering index, b: block id]     *)
(*   [k |-> "while", u, n: steering index, b: block id]                    *)
(*   [k |-> "with", d: Seq(name) (the `as` target), b: block id]           *)
(*   [k |-> "comp", d: assigned name, cv: comprehension variable, u, iu]   *)
(*   [k |-> "ret", u]                                                      *)
(*                                                                         *)
(* Declarative part (the usage guide's rules): Rules(p) computes, block by *)
(* block, the set of names bound on every path (a one-armed if, a loop     *)
(* body and a loop target add nothing; two branches add what both add; a   *)
(* path that returned is absorbing) and whether some use is outside it.    *)
(* Operational part: the path machine -- a defined-set and a continuation  *)
(* stack -- run for one steering vector.                                   *)
(* TLC checks (design level) RulesSound: a program the rules accept never  *)
(* reads an unbound name or falls off its end, on any steering vector; and *)
(* (conformance) that the real front end's accept/reject and the real      *)
(* interpreter's outcome on every steering vector agree with the model.    *)
(***************************************************************************)
EXTENDS Integers, Sequences, FiniteSets, TLC, Json, IOUtils

Progs == ndJsonDeserialize(IOEnv.PROG_FILE)

SetOf(s) == {s[i] : i \in 1..Len(s)}

-----------------------------------------------------------------------------
(* Declarative rules.  Result of a block: [env, term, bad]                 *)
RECURSIVE RBlock(_, _, _, _), RStmt(_, _, _)

RStmt(p, s, env) ==
    CASE s.k = "assign" -> [env |-> env \cup SetOf(s.d), term |-> FALSE, bad |-> ~(SetOf(s.u) \subseteq env)]
      [] s.k = "ret" -> [env |-> env, term |-> TRUE, bad |-> ~(SetOf(s.u) \subseteq env)]
      [] s.k = "comp" ->
           [env |-> env \cup SetOf(s.d), term |-> FALSE,
            bad |-> ~(SetOf(s.iu) \subseteq env) \/ ~(SetOf(s.u) \subseteq (env \cup {s.cv}))]
      [] s.k = "if" ->
           LET a == RBlock(p, s.t, 1, env)
               b == IF s.f = 0 THEN [env |-> env, term |-> FALSE, bad |-> FALSE] ELSE RBlock(p, s.f, 1, env)
               e == IF a.term /\ b.term THEN env
                    ELSE IF a.term THEN b.env ELSE IF b.term THEN a.env ELSE a.env \cap b.env
           IN  [env |-> e, term |-> a.term /\ b.term, bad |-> ~(SetOf(s.u) \subseteq env) \/ a.bad \/ b.bad]
      [] s.k = "for" ->
           LET a == RBlock(p, s.b, 1, env \cup SetOf(s.d))
           IN  [env |-> env, term |-> FALSE, bad |-> ~(SetOf(s.u) \subseteq env) \/ a.bad]
      [] s.k = "while" ->
           LET a == RBlock(p, s.b, 1, env)
           IN  [env |-> env, term |-> FALSE, bad |-> ~(SetOf(s.u) \subseteq env) \/ a.bad]
      [] s.k = "with" ->
           LET a == RBlock(p, s.b, 1, env \cup SetOf(s.d))
           IN  [env |-> a.env, term |-> a.term, bad |-> a.bad]

RBlock(p, b, i, env) ==
    IF i > Len(p.blocks[b]) THEN [env |-> env, term |-> FALSE, bad |-> FALSE]
    ELSE LET r == RStmt(p, p.blocks[b][i], env)
         IN  IF r.term THEN r       \* nothing after a return is reachable
             ELSE LET rest == RBlock(p, b, i + 1, r.env)
                  IN  [env |-> rest.env, term |-> rest.term, bad |-> r.bad \/ rest.bad]

\* the guide's verdict: every use is bound on every path, and the body ends in a return on every path
RulesAccept(p) == LET r == RBlock(p, 1, 1, SetOf(p.params)) IN ~r.bad /\ r.term

-----------------------------------------------------------------------------
(* The path machine.                                                       *)
VARIABLES pid, sid,           \* program, steering vector
          def, kont, status
svars == <<pid, sid, def, kont, status>>

P == Progs[pid]
St == P.steer[sid].v            \* the steering vector: St[i] = truth value (0/1) or trip count

SInit == /\ pid \in 1..Len(Progs) /\ sid \in 1..Len(Progs[pid].steer)
         /\ def = SetOf(Progs[pid].params)
         /\ kont = <<[b |-> 1, i |-> 1, kind |-> "body", left |-> 0]>>
         /\ status = "run"

K == kont[Len(kont)]
AtEnd == K.i > Len(P.blocks[K.b])
Cur == P.blocks[K.b][K.i]
Adv(k) == [k EXCEPT ![Len(k)].i = @ + 1]
Pop(k) == SubSeq(k, 1, Len(k) - 1)
Uses(u) == SetOf(u) \subseteq def

Unbound == /\ status = "run" /\ ~AtEnd
           /\ LET u == IF Cur.k = "comp" THEN SetOf(Cur.iu) \cup (SetOf(Cur.u) \ {Cur.cv})
                       ELSE IF Cur.k = "with" THEN {} ELSE SetOf(Cur.u)
              IN  ~(u \subseteq def)
           /\ status' = "unbound" /\ UNCHANGED <<pid, sid, def, kont>>

Ok == status = "run" /\ ~AtEnd /\
      (IF Cur.k = "comp" THEN Uses(Cur.iu) /\ SetOf(Cur.u) \subseteq (def \cup {Cur.cv})
       ELSE IF Cur.k = "with" THEN TRUE ELSE Uses(Cur.u))

Assign == /\ Ok /\ Cur.k \in {"assign", "comp"}
          /\ def' = def \cup SetOf(Cur.d) /\ kont' = Adv(kont) /\ UNCHANGED <<pid, sid, status>>
Ret == /\ Ok /\ Cur.k = "ret" /\ status' = "returned" /\ UNCHANGED <<pid, sid, def, kont>>
If == /\ Ok /\ Cur.k = "if"
      /\ IF St[Cur.c] = 1 THEN kont' = Append(kont, [b |-> Cur.t, i |-> 1, kind |-> "blk", left |-> 0])
         ELSE IF Cur.f # 0 THEN kont' = Append(kont, [b |-> Cur.f, i |-> 1, kind |-> "blk", left |-> 0])
         ELSE kont' = Adv(kont)
      /\ UNCHANGED <<pid, sid, def, status>>
With == /\ Ok /\ Cur.k = "with"
        /\ def' = def \cup SetOf(Cur.d)
        /\ kont' = Append(kont, [b |-> Cur.b, i |-> 1, kind |-> "blk", left |-> 0])
        /\ UNCHANGED <<pid, sid, status>>
Loop == /\ Ok /\ Cur.k \in {"for", "while"}
        /\ IF St[Cur.n] = 0 THEN kont' = Adv(kont) /\ def' = def
           ELSE /\ kont' = Append(kont, [b |-> Cur.b, i |-> 1, kind |-> "loop", left |-> St[Cur.n] - 1])
                /\ def' = IF Cur.k = "for" THEN def \cup SetOf(Cur.d) ELSE def
        /\ UNCHANGED <<pid, sid, status>>
BlockEnd == /\ status = "run" /\ AtEnd /\ Len(kont) > 1
            /\ IF K.kind = "loop" /\ K.left > 0
               THEN kont' = [kont EXCEPT ![Len(kont)].i = 1, ![Len(kont)].left = @ - 1]
               ELSE kont' = Adv(Pop(kont))
            /\ UNCHANGED <<pid, sid, def, status>>
FallOff == /\ status = "run" /\ AtEnd /\ Len(kont) = 1
           /\ status' = "falloff" /\ UNCHANGED <<pid, sid, def, kont>>

\* conformance: what the real front end / interpreter did
Verdict ==
    LET out == P.steer[sid].out IN
    IF ~P.accepted THEN
        \* a rejected program is fine; but the guide's own examples of accepted shapes must not be rejected wholesale
        "ok"
    ELSE IF status \in {"unbound", "falloff"} THEN
        (IF out = status THEN "accepted-unsafe" ELSE "accepted-unsafe-model-only")
    ELSE IF out \in {"unbound", "falloff"} THEN "code-failed-on-safe-path"
    ELSE "ok"          \* (another run-time error says nothing about scoping)
Judge == /\ status \in {"returned", "unbound", "falloff"}
         /\ LET v == Verdict IN IF v = "ok" THEN TRUE ELSE PrintT(<<"MM", P.pid, sid, v, status>>)
         /\ status' = "judged" /\ UNCHANGED <<pid, sid, def, kont>>

SNext == Unbound \/ Assign \/ Ret \/ If \/ With \/ Loop \/ BlockEnd \/ FallOff \/ Judge
SSpec == SInit /\ [][SNext]_svars

\* design level: the rules are sound for the path machine
RulesSound == RulesAccept(P) => status \notin {"unbound", "falloff"}
\* the guide's rejections are enforced: a program the rules reject is not accepted by the front end
GuideEnforced == (sid = 1 /\ status = "run" /\ Len(kont) = 1 /\ K.i = 1 /\ P.accepted /\ ~RulesAccept(P))
                    => PrintT(<<"MM", P.pid, 0, "accepted-against-guide", "">>)
=============================================================================
