--------------------------- MODULE WideRoundTrace ---------------------------
(* Mode V for C03 at wide precisions: recorded results as multi-limb integers judged by WideRound!WideVerdict *)
EXTENDS WideRound, Json, IOUtils
Recs == ndJsonDeserialize(IOEnv.TRACE_FILE)
VARIABLES l, bad
vars == <<l, bad>>
Init == l = 1 /\ bad = 0
Next ==
    /\ l <= Len(Recs)
    /\ LET r == Recs[l]
           v == WideVerdict(r)
       IN  /\ IF v = "ok" THEN TRUE ELSE PrintT(<<"MM", r.tid, v>>)
           /\ bad' = IF v = "ok" THEN bad ELSE bad + 1
    /\ l' = l + 1
Spec == Init /\ [][Next]_vars
Consumed == TLCGet("stats").diameter - 1 = Len(Recs)
Done == IF l = Len(Recs) + 1 THEN PrintT(<<"DONE", Len(Recs), bad>>) ELSE TRUE
=============================================================================
