-------------------------------- MODULE Num --------------------------------
(***************************************************************************)
(* Exact numbers for the FPy reference model.                              *)
(*                                                                         *)
(* A number is a record                                                    *)
(*   [k |-> "fin", s |-> 0|1, n |-> Nat, d |-> Nat \ {0}]   value (-1)^s n/d *)
(*   [k |-> "inf", s |-> 0|1]                                              *)
(*   [k |-> "nan"]                                                         *)
(* with n/d in lowest terms; zero is n = 0, d = 1 and keeps its sign.      *)
(* All operators are exact.  TLC integers are 32 bit and TLC aborts on     *)
(* overflow, so callers stay inside a domain guard (see DESIGN.md 2.3).    *)
(***************************************************************************)
EXTENDS Integers, Sequences, FiniteSets, TLC

Max(a, b) == IF a >= b THEN a ELSE b
Min(a, b) == IF a <= b THEN a ELSE b
AbsI(a)   == IF a < 0 THEN -a ELSE a
SgnI(a)   == IF a < 0 THEN -1 ELSE IF a > 0 THEN 1 ELSE 0

RECURSIVE Gcd(_, _)
Gcd(a, b) == IF b = 0 THEN a ELSE Gcd(b, a % b)

Pow2(k) == 2^k                       \* k >= 0

RECURSIVE BitLen(_)
BitLen(n) == IF n = 0 THEN 0 ELSE 1 + BitLen(n \div 2)

RECURSIVE ShUp(_, _, _)              \* least k with n * 2^k >= d   (n > 0)
ShUp(n, d, k) == IF n >= d THEN k ELSE ShUp(2 * n, d, k + 1)

\* floor(log2(n/d)) for n > 0
FloorLog2(n, d) == IF n >= d THEN BitLen(n \div d) - 1 ELSE -ShUp(n, d, 0)

NaN      == [k |-> "nan"]
Inf(s)   == [k |-> "inf", s |-> s]
Fin(s, n, d) == LET g == Gcd(n, d) IN [k |-> "fin", s |-> s, n |-> n \div g, d |-> d \div g]
Zero(s)  == [k |-> "fin", s |-> s, n |-> 0, d |-> 1]
OfInt(i) == [k |-> "fin", s |-> IF i < 0 THEN 1 ELSE 0, n |-> AbsI(i), d |-> 1]
\* (-1)^s * c * 2^e
Dy(s, c, e) == IF e >= 0 THEN Fin(s, c * Pow2(e), 1) ELSE Fin(s, c, Pow2(-e))

IsFin(x)  == x.k = "fin"
IsNan(x)  == x.k = "nan"
IsInf(x)  == x.k = "inf"
IsZero(x) == x.k = "fin" /\ x.n = 0
IsNeg(x)  == x.k # "nan" /\ x.s = 1

\* normalise a record read from JSON (already lowest terms, but be safe)
Canon(x) == IF x.k = "fin" THEN Fin(x.s, x.n, x.d)
            ELSE IF x.k = "inf" THEN Inf(x.s) ELSE NaN

\* signed numerator
SN(x) == IF x.s = 1 THEN -x.n ELSE x.n

\* sign of x - y for finite x, y
Cmp(x, y) == SgnI(SN(x) * y.d - SN(y) * x.d)
Lt(x, y) == Cmp(x, y) < 0
Le(x, y) == Cmp(x, y) <= 0

\* finite from signed numerator; a zero result gets sign zs
FromSN(sn, d, zs) == IF sn = 0 THEN Zero(zs) ELSE Fin(IF sn < 0 THEN 1 ELSE 0, AbsI(sn), d)

RNeg(x) == IF x.k = "nan" THEN x ELSE [x EXCEPT !.s = 1 - x.s]
RAbs(x) == IF x.k = "nan" THEN x ELSE [x EXCEPT !.s = 0]
\* exact finite arithmetic (zero results are +0; IEEE zero signs live in Arith)
RAdd(x, y) == FromSN(SN(x) * y.d + SN(y) * x.d, x.d * y.d, 0)
RSub(x, y) == RAdd(x, RNeg(y))
RMul(x, y) == Fin((x.s + y.s) % 2, x.n * y.n, x.d * y.d)
RDiv(x, y) == Fin((x.s + y.s) % 2, x.n * y.d, x.d * y.n)       \* y # 0
RMulPow2(x, k) == IF k >= 0 THEN Fin(x.s, x.n * Pow2(k), x.d) ELSE Fin(x.s, x.n, x.d * Pow2(-k))

\* same denotation (sign of zero included, any NaN equals any NaN)
Same(x, y) ==
    \/ x.k = "nan" /\ y.k = "nan"
    \/ x.k = "inf" /\ y.k = "inf" /\ x.s = y.s
    \/ x.k = "fin" /\ y.k = "fin" /\ x.s = y.s /\ x.n = y.n /\ x.d = y.d
\* same real value (zeros identified)
SameVal(x, y) ==
    \/ Same(x, y)
    \/ x.k = "fin" /\ y.k = "fin" /\ x.n = 0 /\ y.n = 0
SameMag(x, y) == Same(RAbs(x), RAbs(y))

IsDyadic(x) == x.k = "fin" /\ Pow2(BitLen(x.d) - 1) = x.d
IsIntegral(x) == x.k = "fin" /\ x.d = 1
=============================================================================
