----------------------------- MODULE MCEncoding -----------------------------
(***************************************************************************)
(* Design-level check tying the two descriptions of a sized format         *)
(* together (no code involved): for every valid small format the set of    *)
(* finite values its bit layout decodes to (Encoding!Decode) is exactly    *)
(* the set of members of the core format Rounding!Core reduces it to, on   *)
(* a grid fine enough to contain every candidate.  So the oracle of C01    *)
(* (rounding into Core) and the oracle of C16 (layouts) describe the same  *)
(* value sets.  Also: the layout is injective on non-NaN codes.            *)
(***************************************************************************)
EXTENDS Encoding
CONSTANTS MAXBITS, EOFFS

EOFFSdef == {-1, 0, 2}
VARIABLES c, phase
vars == <<c, phase>>

NKs == {"ieee", "maxval", "negzero", "none"}
\* the formats the layout note allows: at least one code left for a number
ValidEF(es, nbits, inf, nk) ==
    /\ es >= 0 /\ es < nbits
    /\ LET p == nbits - es IN
       CASE nk = "ieee"   -> es > 0 /\ ~(inf /\ p = 1)
         [] nk = "maxval" -> IF es = 0 THEN ~(p = 1 \/ (inf /\ p = 2)) ELSE ~(es = 1 /\ inf /\ p = 1)
         [] OTHER         -> ~(es = 0 /\ p = 1 /\ inf)

EFs == {[fam |-> "efloat", es |-> es, nbits |-> nb, inf |-> inf, nk |-> nk, eoff |-> eo] :
          es \in 0..MAXBITS, nb \in 1..MAXBITS, inf \in BOOLEAN, nk \in NKs, eo \in EOFFS}
Fixeds == {[fam |-> "fixed", signed |-> sg, scale |-> sc, nbits |-> nb] :
          sg \in BOOLEAN, sc \in {-2, 0, 1}, nb \in 1..MAXBITS}
SMs == {[fam |-> "smfixed", scale |-> sc, nbits |-> nb] : sc \in {-2, 0, 1}, nb \in 2..MAXBITS}

Init == /\ phase = "check"
        /\ c \in {x \in EFs : ValidEF(x.es, x.nbits, x.inf, x.nk)}
                 \cup {x \in Fixeds : ~x.signed \/ x.nbits >= 2} \cup SMs
Next == phase = "check" /\ phase' = "done" /\ UNCHANGED c
Spec == Init /\ [][Next]_vars

\* every dyadic v = m * 2^q0 up to just past the largest decoded magnitude
Grid ==
    LET f  == Core(c)
        q0 == f.nmin + 1
        mx == IF Lt(RAbs(f.maxneg), f.maxpos) THEN f.maxpos ELSE RAbs(f.maxneg)
        top == (IF q0 >= 0 THEN mx.n \div Pow2(q0) ELSE (mx.n * Pow2(-q0)) \div mx.d) + 2
    IN  {Dy(sg, m, q0) : sg \in {0, 1}, m \in 0..top}

SameSets ==
    LET f == Core(c)
        fromLayout == FiniteValues(c)
        fromCore   == {v \in Grid : InCore(f, v)}
    IN  /\ \A v \in fromLayout : \E w \in fromCore : Same(v, w)
        /\ \A w \in fromCore : \E v \in fromLayout : Same(v, w)

Injective ==
    \A a, b \in Codes(c) : a # b /\ Decode(c, a).k # "nan" => ~Same(Decode(c, a), Decode(c, b))

\* the specials the layout has are the ones Core reports
SpecialsAgree ==
    c.fam = "efloat" =>
      LET f == Core(c) dec == {Decode(c, b) : b \in Codes(c)}
      IN  /\ (f.nan <=> \E v \in dec : v.k = "nan")
          /\ (f.inf <=> \E v \in dec : v.k = "inf")
=============================================================================
