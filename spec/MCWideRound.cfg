SPECIFICATION Spec
INVARIANT CmpOK
INVARIANT AddOK
INVARIANT HalfOK
INVARIANT TestsOK
CHECK_DEADLOCK FALSE
