SPECIFICATION Spec
CONSTANTS
  PS = {0, 1, 2, 3}
  NS <- NSdef
  NoN = 99
  G = 6
  YMAX = 520
  EXTRA = 2
INVARIANT DoubleRoundingSafe
CHECK_DEADLOCK FALSE
