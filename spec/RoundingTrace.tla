--------------------------- MODULE RoundingTrace ---------------------------
(* Mode V for C01: every recorded call of Context.round / round_at of the  *)
(* real code is checked against Rounding!Expect.  The verdict is total:    *)
(* every record is consumed, a rejected record prints one MM line.         *)
EXTENDS Rounding, Json, IOUtils

Recs == ndJsonDeserialize(IOEnv.TRACE_FILE)
VARIABLES l, bad
vars == <<l, bad>>

Init == l = 1 /\ bad = 0
Next ==
    /\ l <= Len(Recs)
    /\ LET r == Recs[l]
           v == IF "vo" \in DOMAIN r THEN ValueVerdict(r.ctx, Canon(r.x), r.out)
                ELSE Verdict(r.ctx, Canon(r.x), r.hasn, r.n, r.out)
       IN  /\ IF v = "ok" THEN TRUE ELSE PrintT(<<"MM", r.tid, v>>)
           /\ bad' = IF v = "ok" THEN bad ELSE bad + 1
    /\ l' = l + 1
Spec == Init /\ [][Next]_vars
Consumed == TLCGet("stats").diameter - 1 = Len(Recs)
Done == IF l = Len(Recs) + 1 THEN PrintT(<<"DONE", Len(Recs), bad>>) ELSE TRUE
=============================================================================
