SPECIFICATION Spec
INVARIANT TerminalOrRunning
CHECK_DEADLOCK FALSE
