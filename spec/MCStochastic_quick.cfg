SPECIFICATION Spec
CONSTANTS
  PS = {0, 1, 2, 3}
  NS <- NSdef
  NoN = 99
  KS = {1, 2}
  CMAX = 15
  ELO <- ELOdef
  EHI = 0
  MUT = 0
INVARIANT Neighbour
INVARIANT OneDraw
INVARIANT CountOK
INVARIANT Functional
INVARIANT Representable
CHECK_DEADLOCK FALSE
