SPECIFICATION Spec
CONSTANTS
  MAXBITS = 5
  EOFFS <- EOFFSdef
INVARIANT SameSets
INVARIANT Injective
INVARIANT SpecialsAgree
CHECK_DEADLOCK FALSE
