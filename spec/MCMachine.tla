------------------------------ MODULE MCMachine ------------------------------
(***************************************************************************)
(* Runs the abstract machine on exported programs (PROG_FILE, one program  *)
(* per line) for every recorded input, and judges the outcome the real     *)
(* interpreter produced for that input (mode V at whole-run granularity):  *)
(* a run ends in status "done"/"err", then the Judge action compares with  *)
(* inputs[i].out and prints one line per disagreement.  Invariants of the  *)
(* machine itself (context discipline, store growth) are checked in every  *)
(* state.                                                                  *)
(***************************************************************************)
EXTENDS FPyMachine

MAXSTEPS == 600

RECURSIVE DeepSame(_, _)
DeepSame(a, b) ==
    IF a.k \in {"list", "tuple"} THEN
        b.k = a.k /\ Len(a.v) = Len(b.v) /\ \A i \in 1..Len(a.v) : DeepSame(a.v[i], b.v[i])
    ELSE IF a.k = "bool" THEN b.k = "bool" /\ a.b = b.b
    ELSE IF a.k = "ctx" THEN b.k = "ctx" /\ a.c = b.c
    ELSE IF a.k = "uninit" THEN b.k = "uninit"
    ELSE IF a.k = "big" THEN b.k = "big" /\ a.s = b.s /\ a.n = b.n /\ a.d = b.d
    ELSE IF IsNum(a) THEN b.k \in {"fin", "inf", "nan"} /\ Same(a, Canon(b))
    ELSE FALSE

\* the same, but with the two zeros identified (the sign of an exact cancellation under RTN is open)
RECURSIVE DeepSameZ(_, _)
DeepSameZ(a, b) ==
    IF a.k \in {"list", "tuple"} THEN
        b.k = a.k /\ Len(a.v) = Len(b.v) /\ \A i \in 1..Len(a.v) : DeepSameZ(a.v[i], b.v[i])
    ELSE IF a.k = "bool" THEN b.k = "bool" /\ a.b = b.b
    ELSE IF a.k = "ctx" THEN b.k = "ctx" /\ a.c = b.c
    ELSE IF a.k = "uninit" THEN b.k = "uninit"
    ELSE IF a.k = "big" THEN b.k = "big" /\ a.s = b.s /\ a.n = b.n /\ a.d = b.d
    ELSE IF IsNum(a) THEN b.k \in {"fin", "inf", "nan"} /\ SameVal(a, Canon(b))
    ELSE FALSE

Skippable(e) == e \in {"Unsupported", "OutOfDomain", "Undefined"}

RunVerdict ==
    LET out == P.inputs[inp].out IN
    IF status = "err" THEN
        (IF Skippable(result.e) THEN "skip"
         ELSE IF "err" \in DOMAIN out THEN "ok" ELSE "missing-error")
    ELSE IF "err" \in DOMAIN out THEN "code-raised"
    ELSE IF DeepSame(result, out.val) THEN "ok"
    ELSE IF DeepSameZ(result, out.val) THEN "value-zero-sign" ELSE "value"

Judge ==
    /\ status \in {"done", "err"}
    /\ LET v == RunVerdict IN
       IF v = "ok" THEN TRUE
       ELSE PrintT(<<IF v = "skip" THEN "SKIP" ELSE "MM", P.pid, inp, v, IF status = "err" THEN result.e ELSE "">>)
    /\ status' = "judged"
    /\ UNCHANGED <<pid, inp, frames, store, ctx, result, steps>>

Timeout == status = "run" /\ steps > MAXSTEPS /\ Fail("OutOfDomain")

Init == MInit
Next == (steps <= MAXSTEPS /\ MNext) \/ Timeout \/ Judge
Spec == Init /\ [][Next]_mvars

\* --- invariants of the machine itself
\* the store only grows, and list lengths never change (E-Update writes a cell, nothing resizes)
StoreGrowsOnly == [][Len(store') >= Len(store) /\ \A l \in 1..Len(store) : Len(store'[l]) = Len(store[l])]_mvars
\* the context in force in a frame's body, outside any `with`, is the one it was entered with;
\* with-blocks nest: leaving one restores exactly the context saved when it was entered
CtxDiscipline ==
    [][\A j \in 1..Len(frames) :
         (j <= Len(frames') /\ frames'[j].fn = frames[j].fn /\ Len(frames') = Len(frames)
          /\ j = Len(frames) /\ Len(frames'[j].kont) < Len(frames[j].kont)
          /\ frames[j].kont[Len(frames[j].kont)].kind = "with")
         => ctx' = frames[j].kont[Len(frames[j].kont)].saved]_mvars
\* arguments are never rounded on entry: the first state of a run binds exactly the given values
TerminalOrRunning == status \in {"run", "done", "err", "judged"}
=============================================================================
