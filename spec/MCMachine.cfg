SPECIFICATION Spec
INVARIANT TerminalOrRunning
PROPERTY StoreGrowsOnly
PROPERTY CtxDiscipline
CHECK_DEADLOCK FALSE
