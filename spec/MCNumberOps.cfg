SPECIFICATION Spec
CONSTANTS
  CMAX = 9
  ELO <- ELOdef
  EHI = 2
INVARIANT Homomorphic
INVARIANT ZeroSum
CHECK_DEADLOCK FALSE
