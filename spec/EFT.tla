--------------------------------- MODULE EFT ---------------------------------
(***************************************************************************)
(* C20: the library's own ASTs (fpy2.libraries.eft / core) run on the      *)
(* abstract machine for every operand tuple of a small format; at the end  *)
(* of a run the LAW of the function is checked on the machine's result     *)
(* (exact recombination), and the result is compared with what the real    *)
(* library function returned.                                              *)
(*   law = "sum"   : r1 + r2        = a + b                                *)
(*         "prod"  : r1 + r2        = a * b                                *)
(*         "fma"   : r1 + r2 (+ r3) = a * b + c                            *)
(*         "vsplit": r1 + r2        = a          (veltkamp_split(a, s))    *)
(*         "split" : r1 + r2 = a, r1 a multiple of 2^(n+1), |r2| < 2^(n+1) *)
(*         "modf"  : r1 + r2 = a, r1 integral, |r2| < 1, signs of a        *)
(*         "frexp" : r1 * 2^r2 = a, 1 <= |r1| < 2                          *)
(*         "ldexp" : r = Round(ctx, a * 2^n)                               *)
(* A law is only demanded when every component is finite (the stated       *)
(* preconditions -- nearest rounding, ordered magnitudes -- are arranged   *)
(* by the harness or checked by the function's own assert).                *)
(***************************************************************************)
EXTENDS FPyMachine
MAXSTEPS == 400

RECURSIVE DeepSame(_, _)
DeepSame(a, b) ==
    IF a.k \in {"list", "tuple"} THEN
        b.k = a.k /\ Len(a.v) = Len(b.v) /\ \A i \in 1..Len(a.v) : DeepSame(a.v[i], b.v[i])
    ELSE IF a.k = "bool" THEN b.k = "bool" /\ a.b = b.b
    ELSE IF IsNum(a) THEN b.k \in {"fin", "inf", "nan"} /\ Same(a, Canon(b))
    ELSE FALSE

\* the same, but with the two zeros identified (the sign of an exact cancellation under RTN is open)
RECURSIVE DeepSameZ(_, _)
DeepSameZ(a, b) ==
    IF a.k \in {"list", "tuple"} THEN
        b.k = a.k /\ Len(a.v) = Len(b.v) /\ \A i \in 1..Len(a.v) : DeepSameZ(a.v[i], b.v[i])
    ELSE IF a.k = "bool" THEN b.k = "bool" /\ a.b = b.b
    ELSE IF IsNum(a) THEN b.k \in {"fin", "inf", "nan"} /\ SameVal(a, Canon(b))
    ELSE FALSE

Arg(i) == Canon(P.inputs[inp].args[i])
AllFin(t) == \A i \in 1..Len(t) : t[i].k = "fin"
RECURSIVE SumSeq(_, _)
SumSeq(t, i) == IF i > Len(t) THEN Zero(0) ELSE RAdd(t[i], SumSeq(t, i + 1))

Law ==
    LET r == result IN
    CASE P.law = "none" -> TRUE
      [] P.law \in {"sum", "prod", "fma", "vsplit"} ->
           r.k = "tuple" /\ (AllFin(r.v) /\ (\A i \in 1..Len(P.inputs[inp].args) : Arg(i).k = "fin") =>
              SameVal(SumSeq(r.v, 1),
                      CASE P.law = "sum" -> RAdd(Arg(1), Arg(2))
                        [] P.law = "prod" -> RMul(Arg(1), Arg(2))
                        [] P.law = "fma" -> RAdd(RMul(Arg(1), Arg(2)), Arg(3))
                        [] P.law = "vsplit" -> Arg(1)))
      [] P.law = "split" ->
           r.k = "tuple" /\ (AllFin(r.v) /\ Arg(1).k = "fin" =>
              LET q == SN(Arg(2)) + 1 IN
              /\ SameVal(RAdd(r.v[1], r.v[2]), Arg(1))
              /\ MultipleOfPow2(r.v[1], q) /\ (r.v[2].n = 0 \/ Lt(RAbs(r.v[2]), Dy(0, 1, q))))
      [] P.law = "modf" ->
           r.k = "tuple" /\ (AllFin(r.v) /\ Arg(1).k = "fin" =>
              /\ SameVal(RAdd(r.v[1], r.v[2]), Arg(1)) /\ r.v[1].d = 1
              /\ (r.v[2].n = 0 \/ Lt(RAbs(r.v[2]), OfInt(1)))
              /\ r.v[1].s = Arg(1).s /\ r.v[2].s = Arg(1).s)
      [] P.law = "frexp" ->
           r.k = "tuple" /\ (AllFin(r.v) /\ Arg(1).k = "fin" /\ Arg(1).n # 0 =>
              /\ r.v[2].d = 1 /\ SameVal(RMulPow2(r.v[1], SN(r.v[2])), Arg(1))
              /\ Le(OfInt(1), RAbs(r.v[1])) /\ Lt(RAbs(r.v[1]), OfInt(2)))
      [] P.law = "ldexp" ->
           (Arg(1).k = "fin" /\ Arg(2).k = "fin" /\ Arg(2).d = 1 /\ Len(P.inputs[inp].ctx) = 1 =>
              LET y == MRound(P.inputs[inp].ctx[1], RMulPow2(Arg(1), SN(Arg(2))), <<>>)
              IN  y.err = "" /\ IsNum(r) /\ Same(y.v, r))

EVerdict ==
    LET out == P.inputs[inp].out IN
    IF status = "err" THEN
        (IF result.e \in {"Unsupported", "OutOfDomain", "Undefined"} THEN "skip"
         ELSE IF "err" \in DOMAIN out THEN "ok" ELSE "missing-error")
    ELSE IF ~Law THEN "law"
    ELSE IF "err" \in DOMAIN out THEN "code-raised"
    ELSE IF DeepSame(result, out.val) THEN "ok"
    ELSE IF DeepSameZ(result, out.val) THEN "value-zero-sign" ELSE "value"

Judge ==
    /\ status \in {"done", "err"}
    /\ LET v == EVerdict IN
       IF v = "ok" THEN TRUE
       ELSE PrintT(<<IF v = "skip" THEN "SKIP" ELSE "MM", P.pid, inp, v, IF status = "err" THEN result.e ELSE "">>)
    /\ status' = "judged"
    /\ UNCHANGED <<pid, inp, frames, store, ctx, result, steps>>
Timeout == status = "run" /\ steps > MAXSTEPS /\ Fail("OutOfDomain")
Init == MInit
Next == (steps <= MAXSTEPS /\ MNext) \/ Timeout \/ Judge
Spec == Init /\ [][Next]_mvars
TypeOK == status \in {"run", "done", "err", "judged"}
=============================================================================
