------------------------------ MODULE Rounding ------------------------------
(***************************************************************************)
(* Number formats and the rounding function of every FPy context family.   *)
(*                                                                         *)
(* A context is a record with a field fam and the family's constructor     *)
(* parameters (see harness/export.py):                                     *)
(*   real                                                                  *)
(*   mpfloat  p                       nan inf nanv infv rm k               *)
(*   mpsfloat p emin                  nan inf nanv infv rm k               *)
(*   mpbfloat p emin maxpos maxneg ov nan inf nanv infv rm k               *)
(*   efloat   es nbits inf nk eoff ov         nanv infv rm k               *)
(*   mpfixed  nmin negzero            nan inf nanv infv rm k               *)
(*   mpbfixed nmin negzero maxpos maxneg ov nan inf nanv infv rm k         *)
(*   fixed    signed scale nbits ov           nanv infv rm k               *)
(*   smfixed  scale nbits ov                  nanv infv rm k               *)
(*   exp      nbits eoff ov                        infv rm                 *)
(* nanv / infv are sequences of length 0 (no substitute) or 1.             *)
(*                                                                         *)
(* Core(c) reduces a family to the "core format"                           *)
(*   [hasP, p, hasN, nmin, hasMax, maxpos, maxneg, nan, inf, negzero]      *)
(* : the finite members are 0 and the numbers m * 2^q with q > nmin and,   *)
(* when hasP, m < 2^p; bounded by maxneg <= v <= maxpos when hasMax.       *)
(* For the sized families the reduction is written from the published bit  *)
(* layouts (EFMaxOrd/EFValOfOrd), not from the code's conversion.          *)
(***************************************************************************)
EXTENDS Num

Modes == {"RNE", "RNA", "RTP", "RTN", "RTZ", "RAZ", "RTO", "RTE"}

-----------------------------------------------------------------------------
(* EFloat layout: sign | es exponent bits | m = nbits-es-1 mantissa bits.  *)
EFp(c)     == c.nbits - c.es
EFm(c)     == EFp(c) - 1
EFbias(c)  == IF c.es = 0 THEN 0 ELSE Pow2(c.es - 1) - 1
EFemin(c)  == 1 - EFbias(c) + c.eoff
EFexpmin(c) == EFemin(c) - EFm(c)
\* value of the non-negative code  ord = ebits * 2^m + mbits  (a finite one)
EFValOfOrd(c, ord) ==
    LET m == EFm(c)  eb == ord \div Pow2(m)  mb == ord % Pow2(m)
    IN  IF eb = 0 THEN Dy(0, mb, EFexpmin(c))
        ELSE Dy(0, Pow2(m) + mb, EFexpmin(c) + eb - 1)
\* largest code that is a finite number (the codes above it are inf / NaN)
EFMaxOrd(c) ==
    LET top == Pow2(c.nbits - 1) - 1
    IN  CASE c.nk = "ieee"   -> (Pow2(c.es) - 1) * Pow2(EFm(c)) - 1
          [] c.nk = "maxval" -> top - 1 - (IF c.inf THEN 1 ELSE 0)
          [] OTHER           -> top - (IF c.inf THEN 1 ELSE 0)
EFMax(c) == LET o == EFMaxOrd(c) IN IF o <= 0 THEN Zero(0) ELSE EFValOfOrd(c, o)

Core(c) ==
    CASE c.fam = "mpfloat" ->
           [hasP |-> TRUE, p |-> c.p, hasN |-> FALSE, nmin |-> 0, hasMax |-> FALSE,
            maxpos |-> Zero(0), maxneg |-> Zero(0), nan |-> c.nan, inf |-> c.inf, negzero |-> TRUE]
      [] c.fam = "mpsfloat" ->
           [hasP |-> TRUE, p |-> c.p, hasN |-> TRUE, nmin |-> c.emin - c.p, hasMax |-> FALSE,
            maxpos |-> Zero(0), maxneg |-> Zero(0), nan |-> c.nan, inf |-> c.inf, negzero |-> TRUE]
      [] c.fam = "mpbfloat" ->
           [hasP |-> TRUE, p |-> c.p, hasN |-> TRUE, nmin |-> c.emin - c.p, hasMax |-> TRUE,
            maxpos |-> Canon(c.maxpos), maxneg |-> Canon(c.maxneg), nan |-> c.nan, inf |-> c.inf, negzero |-> TRUE]
      [] c.fam = "efloat" ->
           [hasP |-> TRUE, p |-> EFp(c), hasN |-> TRUE, nmin |-> EFemin(c) - EFp(c), hasMax |-> TRUE,
            maxpos |-> EFMax(c), maxneg |-> RNeg(EFMax(c)), nan |-> c.nk # "none", inf |-> c.inf,
            negzero |-> c.nk # "negzero"]
      [] c.fam = "mpfixed" ->
           [hasP |-> FALSE, p |-> 0, hasN |-> TRUE, nmin |-> c.nmin, hasMax |-> FALSE,
            maxpos |-> Zero(0), maxneg |-> Zero(0), nan |-> c.nan, inf |-> c.inf, negzero |-> c.negzero]
      [] c.fam = "mpbfixed" ->
           [hasP |-> FALSE, p |-> 0, hasN |-> TRUE, nmin |-> c.nmin, hasMax |-> TRUE,
            maxpos |-> Canon(c.maxpos), maxneg |-> Canon(c.maxneg), nan |-> c.nan, inf |-> c.inf, negzero |-> c.negzero]
      [] c.fam = "fixed" ->
           [hasP |-> FALSE, p |-> 0, hasN |-> TRUE, nmin |-> c.scale - 1, hasMax |-> TRUE,
            maxpos |-> IF c.signed THEN Dy(0, Pow2(c.nbits - 1) - 1, c.scale) ELSE Dy(0, Pow2(c.nbits) - 1, c.scale),
            maxneg |-> IF c.signed THEN Dy(1, Pow2(c.nbits - 1), c.scale) ELSE Zero(0),
            nan |-> FALSE, inf |-> FALSE, negzero |-> FALSE]
      [] c.fam = "smfixed" ->
           [hasP |-> FALSE, p |-> 0, hasN |-> TRUE, nmin |-> c.scale - 1, hasMax |-> TRUE,
            maxpos |-> Dy(0, Pow2(c.nbits - 1) - 1, c.scale), maxneg |-> Dy(1, Pow2(c.nbits - 1) - 1, c.scale),
            nan |-> FALSE, inf |-> FALSE, negzero |-> TRUE]

\* the format with its smallest digit position raised to n (round_at)
RaiseN(f, n) == IF f.hasN THEN [f EXCEPT !.nmin = Max(f.nmin, n)]
                ELSE [f EXCEPT !.hasN = TRUE, !.nmin = n]

-----------------------------------------------------------------------------
(* Rounding a non-zero finite x in the unbounded format (f.hasP, f.p,      *)
(* f.hasN, f.nmin).  q is the exponent of the gap around x.                *)
QExp(f, e) == IF f.hasP THEN (IF f.hasN THEN Max(e - f.p + 1, f.nmin + 1) ELSE e - f.p + 1)
              ELSE f.nmin + 1

\* does the mode choose the neighbour of larger magnitude?
\*   odd: is the smaller-magnitude neighbour an odd multiple of the gap
\*   h  : -1 / 0 / 1 = x below / at / above the midpoint
GoesAway(rm, s, odd, h) ==
    CASE rm = "RNE" -> h > 0 \/ (h = 0 /\ odd)
      [] rm = "RNA" -> h >= 0
      [] rm = "RTP" -> s = 0
      [] rm = "RTN" -> s = 1
      [] rm = "RTZ" -> FALSE
      [] rm = "RAZ" -> TRUE
      [] rm = "RTO" -> ~odd
      [] rm = "RTE" -> odd

RoundU(f, rm, x) ==
    LET e  == FloorLog2(x.n, x.d)
        q  == QExp(f, e)
        sn == IF q >= 0 THEN x.n ELSE x.n * Pow2(-q)
        sd == IF q >= 0 THEN x.d * Pow2(q) ELSE x.d
        fl == sn \div sd
        rem == sn % sd
        h  == SgnI(2 * rem - sd)
        m  == IF rem = 0 THEN fl
              ELSE IF GoesAway(rm, x.s, fl % 2 = 1, h) THEN fl + 1 ELSE fl
    IN  [val |-> Dy(x.s, m, q), inexact |-> rem # 0]

\* membership of a finite value in the core format (bounds included)
InCore(f, v) ==
    \/ v.n = 0 /\ (v.s = 0 \/ f.negzero)
    \/ /\ v.n # 0
       /\ IsDyadic(v)
       /\ LET e == FloorLog2(v.n, v.d)  q == QExp(f, e)
          IN  IF q >= 0 THEN v.d = 1 /\ v.n % Pow2(q) = 0 ELSE v.d <= Pow2(-q)
       /\ (f.hasMax => Le(f.maxneg, v) /\ Le(v, f.maxpos))

Exceeds(f, v) == f.hasMax /\ (IF v.s = 1 THEN Lt(v, f.maxneg) ELSE Lt(f.maxpos, v))
MaxOf(f, s)   == IF s = 1 THEN (IF f.maxneg.n = 0 THEN Zero(IF f.negzero THEN 1 ELSE 0) ELSE f.maxneg)
                 ELSE f.maxpos

\* IEEE 754 7.4: which way a finite overflow goes.  RTO / RTE are not IEEE
\* modes and the property leaves them open.
OvInfOK(rm, s) == rm \in {"RNE", "RNA", "RAZ", "RTO", "RTE"} \/ (rm = "RTP" /\ s = 0) \/ (rm = "RTN" /\ s = 1)
OvMaxOK(rm, s) == rm \in {"RTZ", "RTO", "RTE"} \/ (rm = "RTP" /\ s = 1) \/ (rm = "RTN" /\ s = 0)

\* the bound on side s as a set: a zero bound may carry either sign the format has
MaxSet(f, s) == IF MaxOf(f, s).n = 0 THEN {Zero(0), MaxOf(f, s)} ELSE {MaxOf(f, s)}

FoldZero(f, v) == IF v.k = "fin" /\ v.n = 0 /\ ~f.negzero THEN Zero(0) ELSE v
Subst(v, s) == IF v.k = "nan" THEN {NaN} ELSE {Canon(v), [Canon(v) EXCEPT !.s = s], [Canon(v) EXCEPT !.s = 1 - s]}

-----------------------------------------------------------------------------
(* Expectation: [vals, errs, ix, ov, flags]                                *)
(*   vals : allowed result values    errs : allowed exception classes      *)
(*   flags: are the inexact / overflow flags determined (finite operand)?  *)
E(vals, errs, flags, ix, ov) == [vals |-> vals, errs |-> errs, flags |-> flags, ix |-> ix, ov |-> ov]

\* what "infinity" becomes
InfOutcome(c, f, s) ==
    IF c.fam = "efloat"
    THEN IF c.inf THEN E({Inf(s)}, {}, FALSE, FALSE, FALSE)
         ELSE IF Len(c.infv) = 1 THEN E(Subst(c.infv[1], s), {}, FALSE, FALSE, FALSE)
         ELSE IF c.nk # "none" THEN E({NaN}, {}, FALSE, FALSE, FALSE)
         ELSE E({MaxOf(f, s)}, {}, FALSE, FALSE, FALSE)
    ELSE IF f.inf THEN E({Inf(s)}, {}, FALSE, FALSE, FALSE)
         ELSE IF Len(c.infv) = 1 THEN E(Subst(c.infv[1], s), {}, FALSE, FALSE, FALSE)
         ELSE E({}, {"ValueError"}, FALSE, FALSE, FALSE)

NanOutcome(c, f) ==
    IF c.fam = "efloat"
    THEN IF c.nk # "none" THEN E({NaN}, {}, FALSE, FALSE, FALSE)
         ELSE IF Len(c.nanv) = 1 THEN E(Subst(c.nanv[1], 0), {}, FALSE, FALSE, FALSE)
         ELSE IF c.inf THEN E({Inf(0), Inf(1)}, {}, FALSE, FALSE, FALSE)
         ELSE E({MaxOf(f, 0), MaxOf(f, 1)}, {}, FALSE, FALSE, FALSE)
    ELSE IF f.nan THEN E({NaN}, {}, FALSE, FALSE, FALSE)
         ELSE IF Len(c.nanv) = 1 THEN E(Subst(c.nanv[1], 0), {}, FALSE, FALSE, FALSE)
         ELSE E({}, {"ValueError"}, FALSE, FALSE, FALSE)

\* ordinal wrap-around of the (already rounded) value r
WrapVal(f, r) ==
    LET q   == f.nmin + 1
        sc(v) == IF q >= 0 THEN SN(v) \div (v.d * Pow2(q)) ELSE (SN(v) * Pow2(-q)) \div v.d   \* v / 2^q, an integer
        lo  == sc(f.maxneg)  hi == sc(f.maxpos)
        cnt == hi - lo + 1
        w   == ((sc(r) - lo) % cnt) + lo
    IN  IF q >= 0 THEN FromSN(w * Pow2(q), 1, 0) ELSE FromSN(w, Pow2(-q), 0)

OverflowOutcome(c, f, r) ==
    LET s == r.s IN
    CASE c.ov = "SATURATE" -> E(MaxSet(f, s), {}, TRUE, TRUE, TRUE)
      [] c.ov = "ASSERT"   -> E({}, {"OverflowError"}, TRUE, TRUE, TRUE)
      [] c.ov = "WRAP"     -> E({WrapVal(f, r)}, {}, TRUE, TRUE, TRUE)
      [] c.ov = "OVERFLOW" ->
           LET io == InfOutcome(c, f, s)
           IN  E((IF OvInfOK(c.rm, s) THEN io.vals ELSE {}) \cup (IF OvMaxOK(c.rm, s) THEN MaxSet(f, s) ELSE {}),
                 IF OvInfOK(c.rm, s) THEN io.errs ELSE {}, TRUE, TRUE, TRUE)

\* the exponential family: members are 2^k, emin <= k <= emax, and NaN
ExpEmax(c) == Pow2(c.nbits - 1) - 1 + c.eoff
ExpEmin(c) == 1 - (Pow2(c.nbits - 1) - 1) + c.eoff - 1
ExpF(hasN, n) == [hasP |-> TRUE, p |-> 1, hasN |-> hasN, nmin |-> n]
ExpectExp(c, x, hasN, n) ==
    IF x.k = "nan" THEN E({NaN}, {}, FALSE, FALSE, FALSE)
    ELSE IF x.k = "inf" THEN E((IF Len(c.infv) = 1 THEN {Canon(c.infv[1])} ELSE {NaN}) \cup (IF x.s = 1 THEN {NaN} ELSE {}),
                               {}, FALSE, FALSE, FALSE)
    ELSE IF x.n = 0 \/ x.s = 1 THEN E({NaN}, {}, FALSE, FALSE, FALSE)
    ELSE LET r == RoundU(ExpF(hasN, n), c.rm, x)
             v == r.val
         IN  IF v.n = 0 THEN E({NaN}, {}, FALSE, FALSE, FALSE)
             ELSE LET e == FloorLog2(v.n, v.d)
                      lo == Dy(0, 1, ExpEmin(c))  hi == Dy(0, 1, ExpEmax(c))
                  IN  IF e < ExpEmin(c) THEN
                          \* below the smallest member: "nothing" (NaN) or the smallest member
                          E(IF c.ov = "SATURATE" \/ c.rm \in {"RTP", "RAZ"} THEN {lo}
                            ELSE IF c.rm \in {"RTZ", "RTN"} THEN {NaN} ELSE {NaN, lo},
                            {}, FALSE, TRUE, TRUE)
                      ELSE IF e > ExpEmax(c) THEN
                          E(IF c.ov = "SATURATE" THEN {hi}
                            ELSE (IF OvInfOK(c.rm, 0) THEN {NaN} ELSE {}) \cup (IF OvMaxOK(c.rm, 0) THEN {hi} ELSE {}),
                            {}, TRUE, TRUE, TRUE)
                      ELSE E({v}, {}, TRUE, r.inexact, FALSE)

\* hasN/n: an explicit rounding position (round_at); hasN = FALSE for round
Expect(c, x, hasN, n) ==
    IF c.fam = "real" THEN
        IF hasN THEN E({}, {"RuntimeError"}, FALSE, FALSE, FALSE)
        ELSE E({x}, IF x.k = "fin" /\ ~IsDyadic(x) THEN {"ValueError"} ELSE {}, x.k = "fin", FALSE, FALSE)
    ELSE IF c.fam = "exp" THEN ExpectExp(c, x, hasN, n)
    ELSE
    LET f0 == Core(c)
        f  == IF hasN THEN RaiseN(f0, n) ELSE f0
    IN  IF x.k = "nan" THEN NanOutcome(c, f0)
        ELSE IF x.k = "inf" THEN InfOutcome(c, f0, x.s)
        ELSE IF x.n = 0 THEN E({FoldZero(f0, x)}, {}, TRUE, FALSE, FALSE)
        ELSE LET r == RoundU(f, c.rm, x)
             IN  IF Exceeds(f0, r.val) THEN OverflowOutcome(c, f0, r.val)
                 ELSE E({FoldZero(f0, r.val)}, {}, TRUE, r.inexact, FALSE)

\* out: [val, ix, ov, rep] or [err]
Verdict(c, x, hasN, n, out) ==
    LET ex == Expect(c, x, hasN, n) IN
    IF "err" \in DOMAIN out THEN (IF out.err \in ex.errs THEN "ok" ELSE "unexpected-error")
    ELSE IF ex.vals = {} THEN "missing-error"
    ELSE IF ~(\E v \in ex.vals : Same(v, Canon(out.val))) THEN
            (IF ex.flags /\ ex.ov THEN "overflow-value" ELSE IF x.k # "fin" THEN "special-value" ELSE "value")
    ELSE IF ~out.rep THEN "member"
    ELSE IF ex.flags /\ out.ix # ex.ix THEN "inexact-flag"
    ELSE IF ex.flags /\ out.ov # ex.ov THEN "overflow-flag"
    ELSE "ok"

\* value-only judgement (C10: a lowered program must map x to what the source context's rounding gives;
\* flags are not observable there, and where the context refuses the operand any error will do)
ValueVerdict(c, x, out) ==
    LET ex == Expect(c, x, FALSE, 0) IN
    IF "err" \in DOMAIN out THEN (IF ex.errs # {} THEN "ok" ELSE "lowered-raises")
    ELSE IF ex.vals = {} THEN "lowered-returns-where-source-refuses"
    ELSE IF \E v \in ex.vals : Same(v, Canon(out.val)) THEN "ok" ELSE "lowered-value"

\* the rounding function as a plain operator (deterministic contexts, used by
\* Arith / the machine): the value, or NaN-tagged error
RoundVal(c, x) ==
    LET ex   == Expect(c, x, FALSE, 0)
        infs == {v \in ex.vals : v.k = "inf"}
    IN  IF ex.vals = {} THEN [err |-> CHOOSE e \in ex.errs : TRUE]
        ELSE IF infs # {} THEN [val |-> CHOOSE v \in infs : TRUE]
        ELSE [val |-> CHOOSE v \in ex.vals : TRUE]
=============================================================================
