-------------------------------- MODULE Cursor --------------------------------
(***************************************************************************)
(* C19: sites, indices and cursors.                                        *)
(*                                                                         *)
(* A statement path is a sequence  i0, f1, i1, f2, i2, ...  (statement     *)
(* index, block field, statement index, ...; fields are small integers),   *)
(* a block path is such a sequence of even length.  An edit is             *)
(*   [bp: block path, index, removed, inserted]   in the OLD program.      *)
(*                                                                         *)
(* Operational part: FwdStmt / FwdBlock / Forward transcribe               *)
(* cursor._forward_stmt, _forward_block and EditLog.forward.               *)
(* Declarative part: a record of one strategy application (the real sites, *)
(* the real edit log, both program trees with the literal MARKERS each     *)
(* statement carries, and what the real Function.forward answered for      *)
(* every statement) is judged by ApplyVerdict:                             *)
(*   an index outside 0..k-1 is rejected and nothing changes; index j      *)
(*   touches site j only; None touches all k sites; every considered point *)
(*   is a site or a refusal (not both); the real forward agrees with the   *)
(*   model; a forwarded cursor lands on statements that carry a marker of  *)
(*   the statement it named (or raises); statements no edit touched are    *)
(*   unchanged.                                                            *)
(***************************************************************************)
EXTENDS Integers, Sequences, FiniteSets, TLC

IsPrefix(a, b) == Len(a) <= Len(b) /\ SubSeq(b, 1, Len(a)) = a
SetOf(s) == {s[i] : i \in 1..Len(s)}
RECURSIVE ShiftSum(_, _)
\* total of inserted - removed over the edits (indices in S) of E
ShiftSum(S, E) == IF S = {} THEN 0
                  ELSE LET x == CHOOSE y \in S : TRUE IN (E[x].inserted - E[x].removed) + ShiftSum(S \ {x}, E)

RECURSIVE FwdStmt(_, _), FwdBlock(_, _)
\* [ok, path, edit]  edit = 0 when no edit replaced the statement, else its index in E
FwdStmt(p, E) ==
    LET parent == SubSeq(p, 1, Len(p) - 1)
        idx    == p[Len(p)]
        blk    == FwdBlock(parent, E)
        same   == {k \in 1..Len(E) : E[k].bp = parent}
        after  == {k \in same : idx >= E[k].index + E[k].removed}
        shift  == ShiftSum(after, E)
        cont   == {k \in same : idx >= E[k].index /\ idx < E[k].index + E[k].removed}
    IN  IF ~blk.ok THEN [ok |-> FALSE, path |-> <<>>, edit |-> 0]
        ELSE IF cont # {} THEN LET k == CHOOSE k \in cont : TRUE
                               IN  [ok |-> TRUE, path |-> Append(blk.path, E[k].index + shift), edit |-> k]
        ELSE [ok |-> TRUE, path |-> Append(blk.path, idx + shift), edit |-> 0]
FwdBlock(bp, E) ==
    IF bp = <<>> THEN [ok |-> TRUE, path |-> <<>>]
    ELSE LET r == FwdStmt(SubSeq(bp, 1, Len(bp) - 1), E)
         IN  IF ~r.ok \/ r.edit # 0 THEN [ok |-> FALSE, path |-> <<>>]      \* inside a rewritten statement
             ELSE [ok |-> TRUE, path |-> Append(r.path, bp[Len(bp)])]

\* EditLog.forward of a statement cursor: [k: "stmt", p] | [k: "region", bp, start, n] | [k: "err"]
Forward(p, E) ==
    LET r == FwdStmt(p, E) IN
    IF ~r.ok THEN [k |-> "err"]
    ELSE IF r.edit = 0 \/ E[r.edit].inserted = 1 THEN [k |-> "stmt", p |-> r.path]
    ELSE IF E[r.edit].inserted = 0 THEN [k |-> "err"]
    ELSE [k |-> "region", bp |-> SubSeq(r.path, 1, Len(r.path) - 1), start |-> r.path[Len(r.path)], n |-> E[r.edit].inserted]

\* is statement path p at or beneath the statements an edit consumed?
Covered(p, e) == Len(p) > Len(e.bp) /\ IsPrefix(e.bp, p) /\ p[Len(e.bp) + 1] >= e.index /\ p[Len(e.bp) + 1] < e.index + e.removed
Max2(a, b) == IF a >= b THEN a ELSE b
\* is the edit at or beneath statement path s?
EditUnder(e, s) == IsPrefix(s, e.bp) \/ (e.bp = SubSeq(s, 1, Len(s) - 1) /\ e.index <= s[Len(s)] /\ s[Len(s)] < e.index + Max2(e.removed, 1))
SameFw(a, b) ==
    a.k = b.k /\ (a.k = "err" \/ (a.k = "stmt" /\ a.p = b.p) \/ (a.k = "region" /\ a.bp = b.bp /\ a.start = b.start /\ a.n = b.n))

\* an application of a strategy whose sites are EXPRESSIONS (inline): every candidate call carries a unique marker;
\* marks = markers of the listed sites in listing order, gone = markers of the calls that no longer exist afterwards,
\* efw = for every candidate call, the marker of what its forwarded expression cursor resolves to (-1: raised)
ExprVerdict(r) ==
    LET K == Len(r.marks)
        M == SetOf(r.marks)
        G == SetOf(r.gone)
    IN
    IF r.where >= 0 /\ r.where >= K THEN
        (IF r.outcome = "TransformReferenceError" THEN "ok" ELSE "bad-index-accepted")
    ELSE IF r.where = -1 THEN (IF r.outcome # "ok" THEN "ok" ELSE "negative-index-accepted")
    ELSE IF r.outcome # "ok" THEN (IF r.where = -999 \/ r.outcome = "TransformDeclined" THEN "ok" ELSE "listed-site-rejected")
    ELSE IF r.where >= 0 /\ r.marks[r.where + 1] \notin G THEN "site-not-touched"
    ELSE IF r.where >= 0 /\ G # {r.marks[r.where + 1]} THEN "touched-another-site"
    ELSE IF r.where = -999 /\ ~(M \subseteq G) THEN "a-site-not-rewritten"
    ELSE IF r.where = -999 /\ ~(G \subseteq M) THEN "touched-unlisted-site"
    ELSE IF M \cap SetOf(r.rmarks) # {} THEN "site-and-refusal"
    ELSE IF SetOf(r.cand) # (M \cup SetOf(r.rmarks)) THEN "considered-not-accounted"
    ELSE IF Cardinality(M) # K THEN "site-listed-twice"
    ELSE IF \E i \in 1..Len(r.efw) : r.efw[i].r \notin {-1, r.efw[i].m} THEN "expr-forward-to-unrelated"
    ELSE "ok"

\* sites(strategy, f, within = statement cursor): exactly the sites of the full listing at or beneath the statement, in the same order
WithinVerdict(r) ==
    LET under == SelectSeq(r.full, LAMBDA p : IsPrefix(r.at, p)) IN
    IF r.failed THEN "within-listing-failed"
    ELSE IF r.sub # under THEN "within-is-not-the-restriction-of-the-listing"
    ELSE "ok"

\* a user rewrite rule (fpy2.rewrite.Rewrite) aimed by index: k = matches find_all lists (the programs are chosen so that matches do not
\* overlap and rewriting creates none), left = matches listed afterwards
RuleVerdict(r) ==
    IF r.k = -1 THEN "listing-the-matches-failed"
    ELSE IF r.where = -999 THEN
        (IF r.k = 0 THEN "ok"
         ELSE IF r.outcome # "ok" THEN "listed-site-rejected"
         ELSE IF r.left # 0 THEN "a-site-not-rewritten" ELSE "ok")
    ELSE IF r.where < 0 \/ r.where >= r.k THEN
        (IF r.outcome = "TransformReferenceError" THEN "ok" ELSE "bad-index-accepted")
    ELSE IF r.outcome # "ok" THEN "listed-site-rejected"
    ELSE IF r.left > r.k - 1 THEN "site-not-touched"
    ELSE IF r.left < r.k - 1 THEN "touched-another-site"
    ELSE IF ~r.cur THEN "cursor-and-index-name-different-sites"
    ELSE "ok"

ApplyVerdict(r) ==
    IF "kind" \in DOMAIN r /\ r.kind = "expr" THEN ExprVerdict(r)
    ELSE IF "kind" \in DOMAIN r /\ r.kind = "rule" THEN RuleVerdict(r)
    ELSE IF "kind" \in DOMAIN r /\ r.kind = "within" THEN WithinVerdict(r) ELSE
    LET E == r.edits
        K == Len(r.sites)
        New(p) == CHOOSE j \in 1..Len(r.new) : r.new[j].p = p
        HasNew(p) == \E j \in 1..Len(r.new) : r.new[j].p = p
        chain == "chain" \in DOMAIN r      \* a cursor forwarded across several logs: only where it lands is judged
    IN
    \* --- which index is accepted
    IF ~chain /\ r.where >= 0 /\ r.where >= K THEN
        (IF r.outcome = "TransformReferenceError" /\ Len(E) = 0 /\ ~r.changed THEN "ok" ELSE "bad-index-accepted")
    ELSE IF ~chain /\ r.where = -1 THEN
        (IF r.outcome # "ok" /\ ~r.changed THEN "ok" ELSE "negative-index-accepted")
    ELSE IF ~chain /\ r.outcome # "ok" THEN (IF r.where = -999 \/ r.outcome = "TransformDeclined" THEN "ok" ELSE "listed-site-rejected")
    \* --- what was touched
    ELSE IF ~chain /\ r.where >= 0 /\ \E k \in 1..Len(E) : ~EditUnder(E[k], r.sites[r.where + 1]) THEN "touched-another-site"
    ELSE IF ~chain /\ r.where >= 0 /\ ~(\E k \in 1..Len(E) : EditUnder(E[k], r.sites[r.where + 1])) /\ K > 0 THEN "site-not-touched"
    ELSE IF ~chain /\ r.where = -999 /\ \E s \in 1..K : ~(\E k \in 1..Len(E) : Covered(r.sites[s], E[k]) \/ EditUnder(E[k], r.sites[s])) THEN "a-site-not-rewritten"
    ELSE IF ~chain /\ "cur" \in DOMAIN r /\ ~r.cur THEN "cursor-and-index-name-different-sites"
    \* --- sites and refusals account for what was considered
    ELSE IF SetOf(r.sites) \cap SetOf(r.refused) # {} THEN "site-and-refusal"
    ELSE IF SetOf(r.cand) # (SetOf(r.sites) \cup SetOf(r.refused)) THEN "considered-not-accounted"
    \* --- forwarding
    ELSE IF ~chain /\ \E i \in 1..Len(r.fw) : ~SameFw(r.fw[i].r, Forward(r.fw[i].p, E)) THEN "forward-differs-from-model"
    ELSE IF \E i \in 1..Len(r.fw) :
              LET f == r.fw[i].r  old == r.old[i] IN
              /\ f.k = "stmt" /\ HasNew(f.p) /\ old.all # <<>> /\ old.p \notin SetOf(r.xr)
              /\ SetOf(r.new[New(f.p)].all) \cap SetOf(old.all) = {} THEN "forward-to-unrelated-statement"
    \* a statement no edit replaced keeps its kind (and the name it assigns), even where its expressions were rewritten
    ELSE IF ~chain /\ \E i \in 1..Len(r.fw) :
              LET f == r.fw[i].r  old == r.old[i] IN
              /\ f.k = "stmt" /\ HasNew(f.p) /\ FwdStmt(old.p, E).ok /\ FwdStmt(old.p, E).edit = 0
              /\ r.new[New(f.p)].sig # old.sig THEN "forward-changes-statement-kind"
    ELSE IF \E i \in 1..Len(r.fw) :
              LET f == r.fw[i].r IN f.k = "stmt" /\ ~HasNew(f.p) THEN "forward-to-nothing"
    ELSE IF \E i \in 1..Len(r.fw) :
              LET f == r.fw[i].r  old == r.old[i] IN
              /\ f.k = "region" /\ old.all # <<>>
              /\ ~(\E j \in 1..Len(r.new) : /\ Len(r.new[j].p) = Len(f.bp) + 1 /\ IsPrefix(f.bp, r.new[j].p)
                                           /\ r.new[j].p[Len(f.bp) + 1] >= f.start /\ r.new[j].p[Len(f.bp) + 1] < f.start + f.n
                                           /\ SetOf(r.new[j].all) \cap SetOf(old.all) # {}) THEN "forward-region-unrelated"
    \* --- untouched statements are unchanged
    ELSE IF ~chain /\ \E i \in 1..Len(r.old) :
              LET p == r.old[i].p  f == Forward(p, E) IN
              /\ ~(\E k \in 1..Len(E) : Covered(p, E[k]) \/ EditUnder(E[k], p))
              /\ p \notin SetOf(r.xr)
              /\ f.k = "stmt" /\ HasNew(f.p) /\ r.new[New(f.p)].own # r.old[i].own THEN "untouched-changed"
    ELSE "ok"
=============================================================================
