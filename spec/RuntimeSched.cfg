SPECIFICATION SSpec
CONSTANTS
  MUT = "none"
  SCRIPTS = {1}
INVARIANT Emit
INVARIANT SeqEquivalent
CHECK_DEADLOCK FALSE
