---------------------------- MODULE MCNumberOps ----------------------------
(***************************************************************************)
(* Design-level model for C05 (no code): RealFloat.__add__, __mul__,       *)
(* compare and split transcribed on encodings (s, c, exp) -- one action    *)
(* per arm -- checked against the denotational operators for every pair of *)
(* small encodings, including redundant ones (c=4,exp=0 / c=1,exp=2) and   *)
(* zeros with arbitrary exponents.                                         *)
(***************************************************************************)
EXTENDS NumberOps
CONSTANTS CMAX, ELO, EHI
ELOdef == -2
VARIABLES x, y, op, pc, rs, rc, rexp, ord
vars == <<x, y, op, pc, rs, rc, rexp, ord>>
Encs == {[s |-> s, c |-> c, exp |-> e] : s \in {0, 1}, c \in 0..CMAX, e \in ELO..EHI}
Den(v) == Dy(v.s, v.c, v.exp)
EE(v) == v.exp + BitLen(v.c) - 1

Init == /\ x \in Encs /\ y \in Encs /\ op \in {"add", "mul", "cmp"} /\ pc = "start"
        /\ rs = 0 /\ rc = 0 /\ rexp = 0 /\ ord = 0
Fin3(s, c, e) == /\ rs' = s /\ rc' = c /\ rexp' = e /\ pc' = "done" /\ UNCHANGED <<x, y, op, ord>>
Ord(o) == /\ ord' = o /\ pc' = "done" /\ UNCHANGED <<x, y, op, rs, rc, rexp>>

AddBothZero == pc = "start" /\ op = "add" /\ x.c = 0 /\ y.c = 0
               /\ Fin3(IF x.s = 1 /\ y.s = 1 THEN 1 ELSE 0, 0, Min(x.exp, y.exp))
AddLeftZero  == pc = "start" /\ op = "add" /\ x.c = 0 /\ y.c # 0 /\ Fin3(y.s, y.c, y.exp)
AddRightZero == pc = "start" /\ op = "add" /\ x.c # 0 /\ y.c = 0 /\ Fin3(x.s, x.c, x.exp)
AddAlign ==
    /\ pc = "start" /\ op = "add" /\ x.c # 0 /\ y.c # 0
    /\ LET e  == Min(x.exp, y.exp)
           c1 == x.c * Pow2(x.exp - e)   c2 == y.c * Pow2(y.exp - e)
           m  == (IF x.s = 1 THEN -c1 ELSE c1) + (IF y.s = 1 THEN -c2 ELSE c2)
       IN  Fin3(IF m < 0 THEN 1 ELSE 0, AbsI(m), e)
Mul == pc = "start" /\ op = "mul" /\ Fin3((x.s + y.s) % 2, x.c * y.c, x.exp + y.exp)

CmpZeros == pc = "start" /\ op = "cmp" /\ x.c = 0
            /\ Ord(IF y.c = 0 THEN 0 ELSE IF y.s = 1 THEN 1 ELSE -1)
CmpRightZero == pc = "start" /\ op = "cmp" /\ x.c # 0 /\ y.c = 0 /\ Ord(IF x.s = 1 THEN -1 ELSE 1)
CmpSigns == pc = "start" /\ op = "cmp" /\ x.c # 0 /\ y.c # 0 /\ x.s # y.s /\ Ord(IF x.s = 1 THEN -1 ELSE 1)
CmpMsb == /\ pc = "start" /\ op = "cmp" /\ x.c # 0 /\ y.c # 0 /\ x.s = y.s /\ EE(x) # EE(y)
          /\ LET m == IF EE(x) > EE(y) THEN 1 ELSE -1 IN Ord(IF x.s = 1 THEN -m ELSE m)
CmpSig == /\ pc = "start" /\ op = "cmp" /\ x.c # 0 /\ y.c # 0 /\ x.s = y.s /\ EE(x) = EE(y)
          /\ LET e == Min(x.exp, y.exp)
                 m == SgnI(x.c * Pow2(x.exp - e) - y.c * Pow2(y.exp - e))
             IN  Ord(IF x.s = 1 THEN -m ELSE m)
Next == AddBothZero \/ AddLeftZero \/ AddRightZero \/ AddAlign \/ Mul
        \/ CmpZeros \/ CmpRightZero \/ CmpSigns \/ CmpMsb \/ CmpSig
Spec == Init /\ [][Next]_vars

Homomorphic ==
    pc = "done" =>
      CASE op = "add" -> SameVal(Dy(rs, rc, rexp), Val(XAdd(Den(x), Den(y), "RNE")))
        [] op = "mul" -> SameVal(Dy(rs, rc, rexp), XMul(Den(x), Den(y)))
        [] op = "cmp" -> ord = Cmp3Expect(Den(x), Den(y))
\* a sum of zeros is -0 only when both are (IEEE 754 6.3)
ZeroSum == pc = "done" /\ op = "add" /\ x.c = 0 /\ y.c = 0 => (rs = 1 <=> (x.s = 1 /\ y.s = 1))
=============================================================================
