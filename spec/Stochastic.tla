----------------------------- MODULE Stochastic -----------------------------
(***************************************************************************)
(* Stochastic rounding (C17).                                              *)
(*                                                                         *)
(* Declarative part: for an operand x strictly between its neighbours      *)
(* lo < |x| < hi of the format, with K random bits, the number of the 2^K  *)
(* equally likely draws that round away from zero is                       *)
(*       L = round_rm( (|x| - lo) / (hi - lo) * 2^K )                      *)
(* (exactly that quotient when every lost digit is random, K = "all"),     *)
(* every result is lo or hi, a representable operand is returned as is,    *)
(* and one draw is consumed per rounding.                                  *)
(***************************************************************************)
EXTENDS Rounding

IntFmt == [hasP |-> FALSE, p |-> 0, hasN |-> TRUE, nmin |-> -1]
\* round the positive rational u (belonging to an operand of sign s) to an integer
IntRound(rm, s, u) == IF u.d = 1 THEN u.n ELSE RoundU(IntFmt, rm, [u EXCEPT !.s = s]).val.n

UpCount(c, f, x, K) ==
    LET lo == RoundU(f, "RTZ", x).val   hi == RoundU(f, "RAZ", x).val
        a  == RAbs(x)
        t  == RDiv(RSub(a, RAbs(lo)), RSub(RAbs(hi), RAbs(lo)))
        u  == RMulPow2(t, K)
    IN  IF c.k = -1 THEN (IF u.d = 1 THEN u.n ELSE -1) ELSE IntRound(c.rm, x.s, u)

(* r: [ctx, x, kreq, outs]; outs[i] = [val, nd] is the result for draw i-1 *)
(* and the number of draws the generator was asked for.                    *)
StochVerdict(r) ==
    LET c  == r.ctx
        x  == Canon(r.x)
        f  == Core(c)
        K  == r.kreq
        O  == r.outs
        I  == 1..Len(O)
        lo == RoundU(f, "RTZ", x).val
        hi == RoundU(f, "RAZ", x).val
        val(i) == Canon(O[i].val)
    IN
    IF c.k >= 0 /\ K # c.k THEN "bits-requested"
    ELSE IF Len(O) # Pow2(K) THEN "draw-count"
    ELSE IF \E i \in I : O[i].nd # 1 THEN "draws-consumed"
    ELSE IF Exceeds(f, hi) THEN "ok"         \* overflow is C01's business
    ELSE IF Same(lo, hi) THEN
        (IF \A i \in I : Same(val(i), FoldZero(f, x)) THEN "ok" ELSE "representable-changed")
    ELSE LET L   == UpCount(c, f, x, K)
             ups == {i \in I : Same(val(i), hi)}
             dns == {i \in I : Same(val(i), FoldZero(f, lo))}
         IN  IF L = -1 THEN "allbits-inexact"
             ELSE IF ups \cup dns # I THEN "not-a-neighbour"
             ELSE IF Cardinality(ups) # L THEN "up-count"
             ELSE "ok"
=============================================================================
