------------------------------ MODULE Elementary ------------------------------
(***************************************************************************)
(* C03: elementary functions and constants round the true result once.     *)
(*                                                                         *)
(* The true value of exp, log, sin, ... is not definable in TLA+.  What    *)
(* TLC decides is the step the property is about: GIVEN an enclosure       *)
(* lo <= true value <= hi (computed outside, by MPFR with directed         *)
(* rounding at high precision, reduced outward to 22 significant bits),    *)
(* rounding is monotone, so if Expect(ctx, lo) and Expect(ctx, hi) are the *)
(* same single outcome, that outcome is the correct rounding of the true   *)
(* value and the code must have returned it; if they differ the case is    *)
(* "inconclusive" at this resolution (counted, never judged).              *)
(*   r: [ctx, fn, kind, lo, hi, out]                                        *)
(*   kind = "sp": the true result is lo itself (a NaN, an infinity or a    *)
(*          zero); "exact": lo = hi is the true value (exp 0, log 1,       *)
(*          pow(2, 10)): it must come back unflagged when representable;   *)
(*          "inexact": lo < true < hi strictly: the result must be flagged *)
(*          inexact; "unknown": exactness not known (only the value is     *)
(*          judged)                                                        *)
(*   out = [val, ix] or [err]                                              *)
(***************************************************************************)
EXTENDS Rounding, FiniteSets

ElemVerdict(r) ==
    LET c  == r.ctx
        lo == Canon(r.lo)
        hi == Canon(r.hi)
        el == Expect(c, lo, FALSE, 0)
        eh == Expect(c, hi, FALSE, 0)
    IN
    IF el.vals # eh.vals \/ el.errs # eh.errs \/ Cardinality(el.vals) > 1 \/ (r.kind \in {"inexact", "unknown"} /\ el.flags /\ eh.flags /\ el.ov # eh.ov)
        THEN "inconclusive"
    ELSE IF "err" \in DOMAIN r.out THEN (IF r.out.err \in el.errs THEN "ok" ELSE "unexpected-error")
    ELSE IF el.vals = {} THEN "missing-error"
    ELSE IF ~(\E v \in el.vals : Same(v, Canon(r.out.val))) THEN
            (IF r.kind = "sp" THEN "special-result" ELSE IF r.kind = "exact" THEN "exact-result-not-returned-exactly" ELSE "not-correctly-rounded")
    ELSE IF ~el.flags THEN "ok"
    ELSE IF r.kind = "exact" /\ r.out.ix # el.ix THEN "exact-result-flagged-inexact"
    ELSE IF r.kind = "inexact" /\ ~r.out.ix THEN "inexact-result-not-flagged"
    ELSE "ok"
=============================================================================
