SPECIFICATION Spec
CONSTANTS
  PS = {0, 1, 2, 3}
  NS <- NSdef
  NoN = 99
  G = 6
  YMAX = 200
  EXTRA = 1
INVARIANT DoubleRoundingSafe
CHECK_DEADLOCK FALSE
