---------------------------- MODULE RuntimeTrace ----------------------------
(***************************************************************************)
(* Mode V for C18: histories recorded from real processes.  One record per *)
(* completed call, in completion order:                                    *)
(*   ev    "call"; "reset" (a fresh default interpreter was installed);    *)
(*         "sync" (newc = the observed content of func_cache, after a      *)
(*         concurrent phase)                                               *)
(*   h     history (= process) id          th   thread number (0: main)    *)
(*   newc  identities compiled during the call (callees), observed         *)
(*   fn    identity of the Function object (a transformed copy is another) *)
(*   key   the call: (fn, context, argument) as one string                 *)
(*   hit   1 / 0: func.ast was / was not in func_cache before the call;    *)
(*         -1: not observed (concurrent phase)                             *)
(*   res   the result, canonical text       solo  the result of the same   *)
(*         call made alone in a pristine process (Runtime!Expected)        *)
(*   same  arguments deep-equal before and after                           *)
(*   shares  the result contains a list object that is (in) an argument    *)
(* The trace spec carries Runtime's cache (which identities were compiled  *)
(* in this process) and evaluates Runtime's invariants on every record.    *)
(***************************************************************************)
EXTENDS Integers, Sequences, FiniteSets, TLC, Json, IOUtils
Recs == ndJsonDeserialize(IOEnv.TRACE_FILE)
VARIABLES l, bad, hid, cache
vars == <<l, bad, hid, cache>>
Init == l = 1 /\ bad = 0 /\ hid = -1 /\ cache = {}

CallVerdict(r, c) ==
    IF ~r.same THEN "argument-modified"                          \* ArgsUntouched
    ELSE IF r.shares THEN "result-shares-structure-with-argument"   \* NoSharedStructure
    ELSE IF r.res # r.solo THEN "result-depends-on-history-or-schedule"   \* SeqEquivalent
    ELSE IF r.hit = 1 /\ r.fn \notin c THEN "cache-hit-for-a-function-never-compiled"   \* CacheByIdentity
    ELSE "ok"

Next ==
    /\ l <= Len(Recs)
    /\ LET r == Recs[l]
           c == IF r.h = hid THEN cache ELSE {}
           new == {r.newc[i] : i \in 1..Len(r.newc)}
           v == IF r.ev = "call" THEN CallVerdict(r, c) ELSE "ok"
       IN  /\ IF v = "ok" THEN TRUE ELSE PrintT(<<"MM", r.tid, v>>)
           /\ bad' = IF v = "ok" THEN bad ELSE bad + 1
           /\ cache' = IF r.ev = "reset" THEN {} ELSE IF r.ev = "sync" THEN new ELSE c \cup {r.fn} \cup new
           /\ hid' = r.h
    /\ l' = l + 1
Spec == Init /\ [][Next]_vars
Consumed == TLCGet("stats").diameter - 1 = Len(Recs)
Done == IF l = Len(Recs) + 1 THEN PrintT(<<"DONE", Len(Recs), bad>>) ELSE TRUE
=============================================================================
