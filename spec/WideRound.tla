------------------------------ MODULE WideRound ------------------------------
(***************************************************************************)
(* C03 at precisions TLC's integers cannot hold: correct rounding stated   *)
(* on multi-limb integers.                                                 *)
(*                                                                         *)
(* All four numbers of a record are non-negative integers on ONE binary    *)
(* scale, written as little-endian sequences of limbs in base 2^15, padded *)
(* to one length:                                                          *)
(*   m   the magnitude the code returned (a p-digit number, scaled up)     *)
(*   u   one unit in the last place of m on that scale (a power of two,    *)
(*       at least 2)                                                       *)
(*   lo, hi   an enclosure of the magnitude of the true value, lo < hi     *)
(*            (the true value is irrational: never a midpoint, never       *)
(*            representable)                                               *)
(* plus the rounding mode, the sign of the value and the parity of m in    *)
(* units of u.  The set of reals that round to m is an interval around m;  *)
(* the code is right iff [lo, hi] lies inside it:                          *)
(*   to nearest        m - u/2 < lo  and  hi < m + u/2                     *)
(*   toward zero       m <= lo       and  hi < m + u                       *)
(*   away from zero    m - u < lo    and  hi <= m                          *)
(*   to odd / to even  m - u < lo and hi < m + u, with m of that parity    *)
(* (RTP / RTN are toward or away from zero according to the sign).         *)
(* If [lo, hi] straddles a boundary of EVERY candidate the record is       *)
(* inconclusive; the harness makes the enclosure 60 digits finer than u,   *)
(* so that does not happen in practice.                                    *)
(***************************************************************************)
EXTENDS Integers, Sequences, TLC

B == 32768

\* (no recursion: a 50-limb number would otherwise cost TLC a deep Java stack)
CmpL(a, b) ==                       \* -1 / 0 / 1; equal lengths, most significant limb last
    LET D == {i \in 1..Len(a) : a[i] # b[i]} IN
    IF D = {} THEN 0
    ELSE LET k == CHOOSE i \in D : \A j \in D : j <= i IN IF a[k] < b[k] THEN -1 ELSE 1
LtL(a, b) == CmpL(a, b) < 0
LeL(a, b) == CmpL(a, b) <= 0

\* carry INTO limb i of a + b: some lower limb generates one and every limb between propagates it
CarryIn(a, b, i) == \E j \in 1..(i - 1) : a[j] + b[j] >= B /\ \A k \in (j + 1)..(i - 1) : a[k] + b[k] = B - 1
AddL(a, b) ==                       \* a + b, one limb longer (the top carry)
    [i \in 1..(Len(a) + 1) |->
        IF i <= Len(a) THEN (a[i] + b[i] + (IF CarryIn(a, b, i) THEN 1 ELSE 0)) % B
        ELSE IF CarryIn(a, b, i) THEN 1 ELSE 0]
Ext(a) == Append(a, 0)              \* the same number, one limb longer (to compare with a sum)

HalfL(a) ==                         \* a / 2 for even a: each limb takes in the low bit of the limb above it
    [i \in 1..Len(a) |-> (a[i] + (IF i < Len(a) THEN B * (a[i + 1] % 2) ELSE 0)) \div 2]

\* the interval tests, on sums so that nothing is subtracted:  m - d < lo  <=>  m < lo + d
Nearest(r)  == LtL(Ext(r.m), AddL(r.lo, HalfL(r.u))) /\ LtL(Ext(r.hi), AddL(r.m, HalfL(r.u)))
Truncate(r) == LeL(r.m, r.lo) /\ LtL(Ext(r.hi), AddL(r.m, r.u))
Away(r)     == LtL(Ext(r.m), AddL(r.lo, r.u)) /\ LeL(r.hi, r.m)
Between(r)  == LtL(Ext(r.m), AddL(r.lo, r.u)) /\ LtL(Ext(r.hi), AddL(r.m, r.u))

WideVerdict(r) ==
    LET ok == CASE r.mode \in {"RNE", "RNA"} -> Nearest(r)
                [] r.mode = "RTZ" -> Truncate(r)
                [] r.mode = "RAZ" -> Away(r)
                [] r.mode = "RTP" -> IF r.neg THEN Truncate(r) ELSE Away(r)
                [] r.mode = "RTN" -> IF r.neg THEN Away(r) ELSE Truncate(r)
                [] r.mode = "RTO" -> r.modd /\ Between(r)
                [] r.mode = "RTE" -> ~r.modd /\ Between(r)
    IN  IF ~LtL(r.lo, r.hi) THEN "bad-record"
        ELSE IF ~ok THEN "not-correctly-rounded-at-wide-precision"
        ELSE IF ~r.ix THEN "inexact-result-not-flagged"
        ELSE "ok"
=============================================================================
